(* Idempotence of sanitizeAttrs for link / URL elements on which the policy itself allows, without a
   value pattern, every attribute the later passes can force ON THAT ELEMENT (rel on a/area/base/link,
   target on a, crossorigin on audio/img/link/script/video): the second pass keeps the forced
   attributes where they are, finds the required tokens and values in place and changes nothing.
   Together with AttrIdemLinks (none of them allowed) this leaves the mixed case, which is false in
   general (findings F15, F17). *)
From Coq Require Import List NArith Bool Lia.
Import ListNotations.
From BM Require Import Bytes Utf8 Strings Tokenizer Policy Url Style Attrs Loop GenTables ForcedAttrs LinkProofs LinkCompose
  AttrProvenance AttrIdem AttrIdemLinks LinkIdem.
Open Scope N_scope.

(* ---- what the passes can add or rewrite on an element: membership, with the side conditions ---- *)
Section Prov.
  Variables M U R : Type.
  Variable I : interp M U R.
  Variable p : policy M U R.
  Variable elem : bytes.
  Variable P : attr -> Prop.
  Hypothesis Hrel : mem elem link_rel_elements = true -> forall v, P (REL, v).
  Hypothesis Htarget : beqb elem (B"a") = true -> forall v, P (TARGET, v).
  Hypothesis Hcross : mem elem crossorigin_elements = true -> forall v, P (CROSSORIGIN, v).

  Lemma P_key k (a : attr) v : (forall v, P (k, v)) -> key_is k a = true -> P (akey a, v).
  Proof. intros H E. unfold key_is in E. apply beqb_eq in E. rewrite E. apply H. Qed.

  Lemma lp1_prov2 nfq nrq tbq : mem elem link_rel_elements = true -> forall attrs nf nr tb r nf' nr' tb',
    link_pass1 (beqb elem (B"a")) nfq nrq tbq attrs nf nr tb = (r, nf', nr', tb') -> Forall P attrs -> Forall P r.
  Proof.
    intros He. induction attrs as [|a rest IH]; intros nf nr tb r nf' nr' tb' H Hq; cbn [link_pass1] in H.
    - inversion H; subst. constructor.
    - inversion Hq as [|? ? Ha Hrest]; subst.
      destruct (key_is REL a && (nfq || nrq)) eqn:E1.
      + apply andb_true_iff in E1 as [E1 _].
        destruct (link_pass1 (beqb elem (B"a")) nfq nrq tbq rest nfq nrq tb) as [[[r0 x] y] z] eqn:E. inversion H; subst.
        constructor; [apply (P_key REL); [apply Hrel; exact He | exact E1] | eapply IH; eauto].
      + destruct (beqb elem (B"a") && key_is TARGET a) eqn:E2.
        * apply andb_true_iff in E2 as [Ea E2].
          destruct (tbq && negb (tb || beqb (aval a) BLANK)).
          -- destruct (link_pass1 (beqb elem (B"a")) nfq nrq tbq rest nf nr true) as [[[r0 x] y] z] eqn:E. inversion H; subst.
             constructor; [apply (P_key TARGET); [apply Htarget; exact Ea | exact E2] | eapply IH; eauto].
          -- destruct (link_pass1 (beqb elem (B"a")) nfq nrq tbq rest nf nr (tb || beqb (aval a) BLANK)) as [[[r0 x] y] z] eqn:E. inversion H; subst.
             constructor; [exact Ha | eapply IH; eauto].
        * destruct (link_pass1 (beqb elem (B"a")) nfq nrq tbq rest nf nr tb) as [[[r0 x] y] z] eqn:E. inversion H; subst.
          constructor; [exact Ha | eapply IH; eauto].
  Qed.

  Lemma noopener_prov2 attrs : mem elem link_rel_elements = true -> Forall P attrs -> Forall P (noopener_pass attrs).
  Proof.
    intros He Hq. unfold noopener_pass. destruct (existsb (key_is REL) attrs).
    - rewrite Forall_forall in *. intros b Hb. apply in_map_iff in Hb as (a & <- & Ha).
      destruct (key_is REL a) eqn:E; [|apply Hq; exact Ha]. destruct (has_rel_token _ _); [apply Hq; exact Ha|].
      apply (P_key REL); [apply Hrel; exact He | exact E].
    - apply Forall_app. split; [exact Hq|]. constructor; [apply Hrel; exact He | constructor].
  Qed.

  Lemma link_pass_prov2 attrs : Forall P attrs -> Forall P (link_pass I p elem attrs).
  Proof.
    intros Hq. unfold link_pass.
    assert (D : forall b : bool, {b = true} + {b = false}) by (intros [|]; [left | right]; reflexivity).
    specialize (D (mem elem link_rel_elements)).
    destruct D as [He|He]; rewrite He; [|rewrite andb_false_r; exact Hq].
    match goal with |- Forall P (if ?c then _ else _) => destruct c end; [|exact Hq].
    destruct (href_external I attrs) as [hf ext]. destruct hf; [|exact Hq].
    match goal with |- context [link_pass1 ?a ?b ?c ?d attrs false false false] =>
      destruct (link_pass1 a b c d attrs false false false) as [[[tmp nf] nr] tb] eqn:E end.
    pose proof (lp1_prov2 _ _ _ He _ _ _ _ _ _ _ _ E Hq) as Ht.
    set (attrs1 := if nf || nr || tb then tmp else attrs).
    assert (H1 : Forall P attrs1) by (subst attrs1; destruct (nf || nr || tb); auto).
    match goal with |- context [if ?c then attrs1 ++ ?x else attrs1] => set (attrs2 := if c then attrs1 ++ x else attrs1) end.
    assert (H2 : Forall P attrs2).
    { subst attrs2. match goal with |- Forall P (if ?c then _ else _) => destruct c end; auto. apply Forall_app. split; [exact H1|].
      constructor; [apply Hrel; exact He | constructor]. }
    assert (D : forall b : bool, {b = true} + {b = false}) by (intros [|]; [left | right]; reflexivity).
    specialize (D (beqb elem (B"a"))).
    destruct D as [Ea|Ea]; rewrite Ea.
    - match goal with |- context [if ?c then (attrs2 ++ ?x, true) else (attrs2, tb)] => destruct c end.
      + apply noopener_prov2; [exact He|]. apply Forall_app. split; [exact H2|]. constructor; [apply Htarget; exact Ea | constructor].
      + destruct tb; [apply noopener_prov2; [exact He | exact H2] | exact H2].
    - cbn [andb]. cbv iota beta. destruct tb; [apply noopener_prov2; [exact He | exact H2] | exact H2].
  Qed.

  Lemma crossorigin_pass_prov2 attrs : Forall P attrs -> Forall P (crossorigin_pass p elem attrs).
  Proof.
    intros Hq. unfold crossorigin_pass.
    assert (D : forall b : bool, {b = true} + {b = false}) by (intros [|]; [left | right]; reflexivity).
    specialize (D (mem elem crossorigin_elements)).
    destruct D as [He|He]; rewrite He; [|rewrite andb_false_r; exact Hq].
    match goal with |- Forall P (if ?c then _ else _) => destruct c end; [|exact Hq].
    destruct (existsb (key_is CROSSORIGIN) attrs).
    - rewrite Forall_forall in *. intros b Hb. apply in_map_iff in Hb as (a & <- & Ha).
      destruct (key_is CROSSORIGIN a) eqn:E; [|apply Hq; exact Ha]. apply (P_key CROSSORIGIN); [apply Hcross; exact He | exact E].
    - apply Forall_app. split; [exact Hq|]. constructor; [apply Hcross; exact He | constructor].
  Qed.
End Prov.

Section Idem.
  Variables M U R : Type.
  Variable I : interp M U R.
  Variable p : policy M U R.
  Variable elem : bytes.
  Variable aps : amap (list (attr_policy M)).

  Notation Fa := (filter_attr I p elem aps (has_style_policies I p elem)).

  Hypothesis Hstyle : style_stable M U R I p elem.
  (* the policy accepts, whatever the value, each forced attribute that a pass can write on this element *)
  Hypothesis Hrel : mem elem link_rel_elements = true -> forall v, Fa (REL, v) = [(REL, v)].
  Hypothesis Htarget : beqb elem (B"a") = true -> forall v, Fa (TARGET, v) = [(TARGET, v)].
  Hypothesis Hcross : mem elem crossorigin_elements = true -> forall v, Fa (CROSSORIGIN, v) = [(CROSSORIGIN, v)].
  (* as in AttrIdemLinks *)
  Hypothesis Hurl : forall k v u, url_attr_of elem = Some k -> Fa (k, v) = [(k, v)] -> Fa (k, u) = [(k, u)].
  Hypothesis Hrw : srcRewriter p = None.
  Hypothesis Hstable : forall raw u, valid_url I p raw = Some u -> valid_url I p u = Some u.
  Hypothesis Hnosandbox : forall l, sandbox_pass p elem l = l.

  Definition kept (a : attr) : Prop := Fa a = [a].
  Definition url_kept (a : attr) : Prop := kept a /\ url_pass_attr I p elem a = [a].

  Lemma F_kept l : Forall kept (flat_map Fa l).
  Proof.
    apply Forall_forall. intros a Ha. apply in_flat_map in Ha as (a0 & _ & Ha).
    exact (filter_attr_kept M U R I p elem aps a0 a Hstyle Ha).
  Qed.

  Lemma U_kept l : Forall kept l -> Forall url_kept (flat_map (url_pass_attr I p elem) l).
  Proof.
    intros H. apply Forall_forall. intros a Ha. apply in_flat_map in Ha as (a0 & H0 & Ha).
    rewrite Forall_forall in H. pose proof (H a0 H0) as Hf.
    unfold url_pass_attr in Ha. destruct (url_attr_of elem) as [k|] eqn:Ek.
    - destruct (key_is k a0) eqn:Eka.
      + destruct (valid_url I p (aval a0)) as [u|] eqn:Ev; [|contradiction]. destruct Ha as [<-|[]].
        rewrite Hrw. assert (Eu : (if beqb k (B"src") then u else u) = u) by (destruct (beqb k (B"src")); reflexivity). rewrite Eu.
        assert (Hk : akey a0 = k) by (unfold key_is in Eka; apply beqb_eq in Eka; exact Eka).
        split.
        * unfold kept in *. rewrite Hk. apply (Hurl k (aval a0) u eq_refl). rewrite <- Hk. rewrite attr_eta. exact Hf.
        * unfold url_pass_attr. rewrite Ek. change (key_is k (akey a0, u)) with (key_is k a0). rewrite Eka. cbn [aval snd]. rewrite (Hstable _ _ Ev), Hrw, Eu. reflexivity.
      + destruct Ha as [<-|[]]. split; [assumption|]. unfold url_pass_attr. rewrite Ek, Eka. reflexivity.
    - destruct Ha as [<-|[]]. split; [assumption|]. unfold url_pass_attr. rewrite Ek. reflexivity.
  Qed.

  Lemma F_of_kept : forall l, Forall kept l -> flat_map Fa l = l.
  Proof. induction 1 as [|a l Ha Hl IH]; cbn [flat_map]; [reflexivity|]. unfold kept in Ha. rewrite Ha, IH. reflexivity. Qed.
  Lemma U_of_kept : forall l, Forall url_kept l -> flat_map (url_pass_attr I p elem) l = l.
  Proof. induction 1 as [|a l [_ Ha] Hl IH]; cbn [flat_map]; [reflexivity|]. rewrite Ha, IH. reflexivity. Qed.

  (* the URL pass leaves an attribute with a forced key alone: the URL attribute of an element is href, cite or src *)
  Lemma url_pass_forced k v : forced_key k = true -> url_pass_attr I p elem (k, v) = [(k, v)].
  Proof.
    intros Hk. unfold url_pass_attr, url_attr_of.
    assert (N : key_is (B"href") (k, v) = false /\ key_is (B"cite") (k, v) = false /\ key_is (B"src") (k, v) = false).
    { unfold forced_key in Hk. unfold key_is, akey. cbn [fst].
      repeat (apply orb_true_iff in Hk as [Hk|Hk]); apply beqb_eq in Hk; subst k; repeat split; reflexivity. }
    destruct N as (N1 & N2 & N3).
    destruct (mem elem href_elements); [rewrite N1; reflexivity|].
    destruct (mem elem cite_elements); [rewrite N2; reflexivity|].
    destruct (mem elem src_elements); [rewrite N3; reflexivity | reflexivity].
  Qed.

  Theorem sanitize_attrs_idem_forced_accepted attrs :
    sanitize_attrs I p elem (sanitize_attrs I p elem attrs aps) aps = sanitize_attrs I p elem attrs aps.
  Proof.
    pose proof (sanitize_attrs_unfold M U R I p elem aps Hnosandbox) as Unf.
    rewrite (Unf attrs). destruct attrs as [|a0 ar]; [reflexivity|].
    remember (flat_map Fa (a0 :: ar)) as c0 eqn:Ec0.
    assert (S0 : Forall kept c0) by (subst c0; apply F_kept).
    destruct c0 as [|x xs] eqn:Ecc; [reflexivity|]. rewrite <- Ecc in *. clear Ecc x xs.
    set (c := if linkable elem then (if requireParseableURLs p then flat_map (url_pass_attr I p elem) c0 else c0) else c0).
    assert (Hmid : mid_passes M U R I p elem c0 = if linkable elem then link_pass I p elem c else c).
    { unfold mid_passes. subst c. destruct (linkable elem); reflexivity. }
    set (out1 := crossorigin_pass p elem (mid_passes M U R I p elem c0)).
    (* every attribute of out1 is kept by the filter, and by the URL pass when that pass runs *)
    assert (K1 : Forall kept out1).
    { subst out1. rewrite Hmid.
      apply (crossorigin_pass_prov2 M U R p elem kept); [intros He v; apply Hcross; exact He|].
      assert (Kc : Forall kept c).
      { subst c. destruct (linkable elem); [|exact S0]. destruct (requireParseableURLs p); [|exact S0].
        eapply Forall_impl; [|apply U_kept; exact S0]. intros a [Ha _]. exact Ha. }
      destruct (linkable elem); [|exact Kc].
      apply (link_pass_prov2 M U R I p elem kept); [intros He v; apply Hrel; exact He | intros He v; apply Htarget; exact He | exact Kc]. }
    assert (K2 : linkable elem = true -> requireParseableURLs p = true -> Forall url_kept out1).
    { intros Hl Hp. subst out1. rewrite Hmid, Hl.
      apply (crossorigin_pass_prov2 M U R p elem url_kept).
      { intros He v. split; [apply Hcross; exact He | apply url_pass_forced; reflexivity]. }
      apply (link_pass_prov2 M U R I p elem url_kept).
      { intros He v. split; [apply Hrel; exact He | apply url_pass_forced; reflexivity]. }
      { intros He v. split; [apply Htarget; exact He | apply url_pass_forced; reflexivity]. }
      subst c. rewrite Hl, Hp. apply U_kept. exact S0. }
    rewrite (Unf out1). destruct out1 as [|o os] eqn:Eo; [reflexivity|]. rewrite <- Eo in *.
    rewrite (F_of_kept out1 K1).
    assert (Hm : forall X : list attr, match out1 with [] => [] | _ :: _ => X end = X) by (intros X; rewrite Eo; reflexivity).
    rewrite Hm. clear Hm.
    (* the later passes on out1 *)
    unfold mid_passes at 1. destruct (linkable elem) eqn:El.
    - assert (EU : (if requireParseableURLs p then flat_map (url_pass_attr I p elem) out1 else out1) = out1).
      { destruct (requireParseableURLs p) eqn:Ep; [|reflexivity]. apply U_of_kept. apply K2; reflexivity. }
      rewrite EU. subst out1. rewrite Hmid. apply link_crossorigin_idem.
    - subst out1. rewrite Hmid. apply crossorigin_pass_idem.
  Qed.
End Idem.
Arguments sanitize_attrs_idem_forced_accepted {M U R} I p elem aps.

(* ---- a decidable sufficient condition, element by element ---- *)
Section Decide.
  Variables M U R : Type.
  Variable I : interp M U R.
  Variable p : policy M U R.

  Notation unpatterned_in := (unpatterned_in M).
  Definition accepted_b (aps : amap (list (attr_policy M))) (k : bytes) : bool :=
    unpatterned_in k aps || unpatterned_in k (globalAttrs p).
  (* every attribute a pass can force on this element is allowed on it (or globally) without a pattern *)
  Definition forced_accepted_b (elem : bytes) (aps : amap (list (attr_policy M))) : bool :=
    (negb (mem elem link_rel_elements) || accepted_b aps REL) &&
    (negb (beqb elem (B"a")) || accepted_b aps TARGET) &&
    (negb (mem elem crossorigin_elements) || accepted_b aps CROSSORIGIN).
  Definition elem_stable2_b (elem : bytes) (aps : amap (list (attr_policy M))) : bool :=
    elem_stable_b p elem aps || (forced_accepted_b elem aps && url_free_b M U R p elem aps && no_sandbox_b M U R p elem).

  Lemma accepted_sound elem aps hsp k v : key_is (B"style") (k, v) = false -> accepted_b aps k = true ->
    filter_attr I p elem aps hsp (k, v) = [(k, v)].
  Proof.
    intros Hk H. unfold filter_attr. destruct (allowDataAttributes p && is_data_attribute (akey (k, v))); [reflexivity|].
    rewrite Hk. cbn [andb]. unfold accepted_b in H. apply orb_true_iff in H as [H|H].
    - rewrite (unpatterned_accepts M U R I k aps v H). reflexivity.
    - destruct (rules_accept I aps (k, v)); [reflexivity|]. rewrite (unpatterned_accepts M U R I k _ v H). reflexivity.
  Qed.

  Hypothesis Hrw : srcRewriter p = None.
  Hypothesis Hstable : forall raw u, valid_url I p raw = Some u -> valid_url I p u = Some u.

  Theorem elem_stable2_sound elem aps a : style_stable M U R I p elem -> elem_stable2_b elem aps = true ->
    clean_attrs I p elem (clean_attrs I p elem a aps) aps = clean_attrs I p elem a aps.
  Proof.
    intros Hs Hb. unfold elem_stable2_b in Hb. apply orb_true_iff in Hb as [Hb|Hb].
    - apply (elem_stable_sound I p Hrw Hstable); assumption.
    - apply andb_true_iff in Hb as [Hb H3]. apply andb_true_iff in Hb as [H1 H2].
      unfold forced_accepted_b in H1. apply andb_true_iff in H1 as [H1 Hc]. apply andb_true_iff in H1 as [Hr Ht].
      assert (E : forall l, clean_attrs I p elem l aps = sanitize_attrs I p elem l aps).
      { intros l. unfold clean_attrs. destruct l; reflexivity. }
      rewrite !E. apply sanitize_attrs_idem_forced_accepted; auto.
      + intros He v. rewrite He in Hr. cbn [negb orb] in Hr. apply accepted_sound; [reflexivity | assumption].
      + intros He v. rewrite He in Ht. cbn [negb orb] in Ht. apply accepted_sound; [reflexivity | assumption].
      + intros He v. rewrite He in Hc. cbn [negb orb] in Hc. apply accepted_sound; [reflexivity | assumption].
      + apply (url_free_sound M U R I p); assumption.
      + apply (no_sandbox_sound M U R p); exact H3.
  Qed.
End Decide.
Arguments elem_stable2_b {M U R} p elem aps.
Arguments elem_stable2_sound {M U R} I p Hrw Hstable elem aps a.
