(* Re-tokenising the rendered items: the tokenizer model reads back exactly the emitted items,
   adjacent texts merged (for item lists without raw-text elements).  A comment is read back with the
   data comment_reread d: its escaped body, newline- and NUL-normalised and unescaped by the
   tokenizer (equal to d when d has no CR and no NUL). *)
From Coq Require Import List NArith Bool Lia.
Import ListNotations.
From BM Require Import Bytes Utf8 Strings Escape Tokenizer Policy Loop EscapeProofs RoundTrip.
Open Scope N_scope.

Definition flushS (cur : bytes) (l : list seg) : list seg := match cur with [] => l | _ => SText cur :: l end.
Definition flushT (cur : bytes) (l : list token) : list token := match cur with [] => l | _ => TText cur :: l end.

(* items the theorem covers: text, blanks, and tags with well-formed names / keys that are not raw-text elements *)
Definition item_ok (it : item) : Prop :=
  match it with
  | ISpace | IText _ => True
  | ITag (TStart n a) | ITag (TSelf n a) => name_ok n /\ Forall (fun kv => key_ok (fst kv)) a /\ is_raw_name n = false
  | ITag (TEnd n) => name_ok n
  | IComment _ => True
  | _ => False
  end.

(* what the tokenizer makes of a comment written with data d *)
Definition comment_reread (d : bytes) : bytes := unescape false (conv_nul (conv_nl (escape_comment d))).

(* ... which is d itself when d has neither a carriage return nor a NUL (the tokenizer normalises both) *)
Lemma escape_comment_from_forall (P : N -> Prop) : P 38 -> P 97 -> P 109 -> P 112 -> P 59 -> P 103 -> P 116 ->
  forall d prev, Forall P d -> Forall P (escape_comment_from prev d).
Proof.
  intros P38 P97 P109 P112 P59 P103 P116. induction d as [|c d IH]; intros prev H; cbn [escape_comment_from]; [constructor|].
  inversion H as [|? ? Hc Hd]; subst. apply Forall_app. split; [|apply IH; exact Hd].
  destruct (c =? 38); [repeat constructor; assumption|]. destruct ((c =? 62) && _); repeat constructor; assumption.
Qed.

Lemma conv_nul_no_nul : forall s, Forall (fun c => (c =? 0) = false) s -> conv_nul s = s.
Proof. unfold conv_nul. induction s as [|c s IH]; intros H; cbn [flat_map]; [reflexivity|]. inversion H as [|? ? Hc Hs]; subst. rewrite Hc, IH by exact Hs. reflexivity. Qed.

Theorem comment_reread_id d : Forall (fun c => (c =? CR) = false /\ (c =? 0) = false) d -> comment_reread d = d.
Proof.
  intros H. unfold comment_reread.
  assert (He : Forall (fun c => (c =? CR) = false /\ (c =? 0) = false) (escape_comment d)).
  { unfold escape_comment. apply escape_comment_from_forall; try (split; reflexivity). exact H. }
  rewrite conv_nl_no_cr by (eapply Forall_impl; [|exact He]; intros c [A _]; exact A).
  rewrite conv_nul_no_nul by (eapply Forall_impl; [|exact He]; intros c [_ A]; exact A).
  apply unescape_escape_comment.
Qed.

Fixpoint segs (its : list item) (cur : bytes) : list seg :=
  match its with
  | [] => flushS cur []
  | IText d :: r => segs r (cur ++ escape d)
  | ISpace :: r => segs r (cur ++ [32])
  | ITag (TStart n a) :: r => flushS cur (STag n (map esc_attr a) CloseStart :: segs r [])
  | ITag (TSelf n a) :: r => flushS cur (STag n (map esc_attr a) CloseSelf :: segs r [])
  | ITag (TEnd n) :: r => flushS cur (SEnd n :: segs r [])
  | IComment d :: r => flushS cur (SComment d :: segs r [])
  | _ :: r => segs r cur
  end.

(* what a tokenizer reads back: the items as tokens, adjacent texts merged, empty texts dropped *)
Fixpoint coalesce (its : list item) (cur : bytes) : list token :=
  match its with
  | [] => flushT cur []
  | IText d :: r => coalesce r (cur ++ d)
  | ISpace :: r => coalesce r (cur ++ [32])
  | ITag t :: r => flushT cur (t :: coalesce r [])
  | IComment d :: r => flushT cur (TComment (comment_reread d) :: coalesce r [])
  | _ :: r => coalesce r cur
  end.

Lemma render_flushS cur l : render_segs (flushS cur l) = cur ++ render_segs l.
Proof. destruct cur; reflexivity. Qed.

Lemma render_segs_items : forall its cur, Forall item_ok its ->
  render_segs (segs its cur) = cur ++ concat (map render_item its).
Proof.
  induction its as [|it its IH]; intros cur Hok.
  - cbn. rewrite render_flushS. reflexivity.
  - inversion Hok as [|? ? Hit Hits]; subst.
    destruct it as [|[d|n a|n|n a|d|d]|d|d|d]; cbn [item_ok] in Hit; try contradiction; cbn [segs map concat render_item].
    + rewrite IH by auto. rewrite <- app_assoc. reflexivity.
    + rewrite render_flushS. cbn [render_segs fold_right seg_bytes]. fold (render_segs (segs its [])). rewrite IH by auto.
      cbn [app]. unfold raw_tag, render1. rewrite tag_string_raw. cbn [close_bytes].
      repeat (first [rewrite <- app_assoc | progress cbn [app]]). reflexivity.
    + rewrite render_flushS. cbn [render_segs fold_right seg_bytes]. fold (render_segs (segs its [])). rewrite IH by auto.
      cbn [app]. unfold raw_end, render1. repeat (first [rewrite <- app_assoc | progress cbn [app]]). reflexivity.
    + rewrite render_flushS. cbn [render_segs fold_right seg_bytes]. fold (render_segs (segs its [])). rewrite IH by auto.
      cbn [app]. unfold raw_tag, render1. rewrite tag_string_raw. cbn [close_bytes].
      repeat (first [rewrite <- app_assoc | progress cbn [app]]). reflexivity.
    + rewrite IH by auto. rewrite <- app_assoc. reflexivity.
    + rewrite render_flushS. cbn [render_segs fold_right seg_bytes]. fold (render_segs (segs its [])). rewrite IH by auto.
      cbn [app]. reflexivity.
Qed.

Lemma esc_attrs_ok a : Forall (fun kv => key_ok (fst kv)) a -> Forall rattr_ok (map esc_attr a).
Proof.
  induction 1 as [|kv a Hk Ha IH]; cbn [map]; constructor; auto.
  split; [exact Hk | apply escape_val_ok].
Qed.

Lemma no_lt_app a b : no_lt a -> no_lt b -> no_lt (a ++ b).
Proof. unfold no_lt. intros. apply Forall_app; auto. Qed.

Lemma segs_ok : forall its cur, Forall item_ok its -> no_lt cur ->
  Forall seg_ok (segs its cur) /\ separated (segs its cur).
Proof.
  induction its as [|it its IH]; intros cur Hok Hcur.
  - cbn. destruct cur; cbn; [split; [constructor | exact I]|]. split; [|exact I]. constructor; [|constructor]. split; [discriminate | exact Hcur].
  - inversion Hok as [|? ? Hit Hits]; subst.
    assert (Hflush : forall sg, seg_ok sg -> is_text_seg sg = false ->
              Forall seg_ok (flushS cur (sg :: segs its [])) /\ separated (flushS cur (sg :: segs its []))).
    { intros sg Hsg Hnt. destruct (IH [] Hits (Forall_nil _)) as [H1 H2].
      assert (Hs : separated (sg :: segs its [])).
      { destruct (segs its []) eqn:E; [exact I|]. split; [rewrite Hnt; discriminate | exact H2]. }
      destruct cur as [|c cur']; cbn [flushS].
      - split; [constructor; auto | exact Hs].
      - split; [constructor; [split; [discriminate | exact Hcur] | constructor; auto]|].
        split; [intros _; exact Hnt | exact Hs]. }
    destruct it as [|[d|n a|n|n a|d|d]|d|d|d]; cbn [item_ok] in Hit; try contradiction; cbn [segs].
    + apply IH; auto. apply no_lt_app; auto. repeat constructor.
    + destruct Hit as (Hn & Hk & Hr). apply Hflush; [|reflexivity]. split; [exact Hn | split; [apply esc_attrs_ok; exact Hk | exact Hr]].
    + apply Hflush; [exact Hit | reflexivity].
    + destruct Hit as (Hn & Hk & Hr). apply Hflush; [|reflexivity]. split; [exact Hn | split; [apply esc_attrs_ok; exact Hk | exact Hr]].
    + apply IH; auto. apply no_lt_app; auto. apply escape_no_lt.
    + apply Hflush; [exact Logic.I | reflexivity].
Qed.

Lemma key_no_upper k : key_ok k -> Forall (fun c => is_upper c = false) k.
Proof. intros [_ H]. exact H. Qed.

Lemma dec_esc_attrs a : Forall (fun kv => key_ok (fst kv)) a -> map dec_attr (map esc_attr a) = a.
Proof.
  induction 1 as [|kv a Hk Ha IH]; cbn [map]; [reflexivity|].
  rewrite IH, dec_esc_attr by (apply key_no_upper; exact Hk). reflexivity.
Qed.

Lemma decode_flush dcur l : map decode (map rtok_of (flushS (escape dcur) l)) = flushT dcur (map decode (map rtok_of l)).
Proof.
  destruct dcur as [|c d].
  - reflexivity.
  - assert (He : escape (c :: d) <> []).
    { cbn [escape flat_map]. destruct (esc_byte_cases c) as [[_ ->]|[[_ ->]|[[_ ->]|[[_ ->]|[[_ ->]|[[_ ->]|[_ ->]]]]]]]; discriminate. }
    destruct (escape (c :: d)) as [|x e] eqn:E; [congruence|]. cbn [flushS flushT map rtok_of]. rewrite <- E. rewrite decode_text. reflexivity.
Qed.

Lemma decode_segs : forall its dcur, Forall item_ok its ->
  map decode (map rtok_of (segs its (escape dcur))) = coalesce its dcur.
Proof.
  induction its as [|it its IH]; intros dcur Hok.
  - cbn [segs coalesce]. rewrite decode_flush. reflexivity.
  - inversion Hok as [|? ? Hit Hits]; subst.
    destruct it as [|[d|n a|n|n a|d|d]|d|d|d]; cbn [item_ok] in Hit; try contradiction; cbn [segs coalesce].
    + change [32] with (escape [32]). rewrite <- escape_app. apply IH; auto.
    + destruct Hit as (Hn & Hk & Hr). rewrite decode_flush. cbn [map rtok_of decode]. rewrite dec_esc_attrs by exact Hk.
      change (@nil N) with (escape []). rewrite IH by auto. reflexivity.
    + rewrite decode_flush. cbn [map rtok_of decode]. change (@nil N) with (escape []). rewrite IH by auto. reflexivity.
    + destruct Hit as (Hn & Hk & Hr). rewrite decode_flush. cbn [map rtok_of decode]. rewrite dec_esc_attrs by exact Hk.
      change (@nil N) with (escape []). rewrite IH by auto. reflexivity.
    + rewrite <- escape_app. apply IH; auto.
    + rewrite decode_flush. cbn [map rtok_of decode]. change (@nil N) with (escape []). rewrite IH by auto. reflexivity.
Qed.

(* the tokenizer reads the rendered items back exactly *)
Theorem tokenize_rendered_items : forall its, Forall item_ok its ->
  tokenize (concat (map render_item its)) = coalesce its [].
Proof.
  intros its Hok. unfold tokenize.
  pose proof (render_segs_items its [] Hok) as Hr. cbn [app] in Hr. rewrite <- Hr.
  destruct (segs_ok its [] Hok (Forall_nil _)) as [H1 H2].
  rewrite raw_tokens_render by assumption.
  change (@nil N) with (escape []). apply decode_segs. exact Hok.
Qed.
