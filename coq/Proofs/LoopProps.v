(* What the loop can emit (for every token list, malformed input included):
   every emitted item is justified by the policy.  Basis of C01, C02 (bare elements), C05, C06, C08. *)
From Coq Require Import List NArith ZArith Bool Lia.
Import ListNotations.
From BM Require Import Bytes Utf8 Strings Escape Tokenizer Policy Url Style Attrs Loop LoopInv.
Open Scope N_scope.

Section LoopProps.
  Variables M U R : Type.
  Variable I : interp M U R.
  Variable p : policy M U R.

  (* the element is allowed by name or by pattern *)
  Definition elem_allowed (n : bytes) : bool :=
    has_key n (elsAndAttrs p) || existsb (fun e => mmatch I (snd (fst e)) n) (elsMatchingAndAttrs p).

  Lemma filter_nil_existsb {A} (f : A -> bool) l : match filter f l with [] => false | _ => true end = existsb f l.
  Proof. induction l as [|x l IH]; simpl; auto. destruct (f x); simpl; auto. Qed.

  Lemma element_policies_allowed n : elem_allowed n = match element_policies I p n with Some _ => true | None => false end.
  Proof.
    unfold elem_allowed, element_policies, has_key, match_regex, matching_entries.
    destruct (lookup n (elsAndAttrs p)); simpl; auto.
    rewrite <- filter_nil_existsb.
    destruct (filter _ (elsMatchingAndAttrs p)); reflexivity.
  Qed.

  Definition recent_is_raw (st : lstate) : bool := beqb (recent st) script_name || beqb (recent st) style_name.

  (* why an item may be emitted from state st on token t *)
  Definition justified (st : lstate) (t : token) (it : item) : Prop :=
    match it with
    | ISpace => addSpaces p = true
    | ITag (TStart n a') =>
        skip st = false /\ is_script_or_style n = false /\
        exists a aps, t = TStart n a /\ element_policies I p n = Some aps /\ a' = clean_attrs I p n a aps /\
                      (a' = [] -> allow_no_attrs I p n = true)
    | ITag (TSelf n a') =>
        skip st = false /\ is_script_or_style n = false /\
        exists a aps, t = TSelf n a /\ element_policies I p n = Some aps /\ a' = clean_attrs I p n a aps /\
                      (a' = [] -> allow_no_attrs I p n = true)
    | ITag (TEnd n) => t = TEnd n /\ skip st = false /\ is_script_or_style n = false /\ elem_allowed n = true
    | ITag _ => False
    | IText d => t = TText d /\ skip st = false
    | IRawText d => False
    | IComment d => t = TComment d /\ allowComments p = true /\ skip st = false
    end.

  Hypothesis safe : allowUnsafe p = false.

  Lemma end_tail_justified st0 st n st' out :
    skip st0 = skip st -> is_script_or_style n = false ->
    end_tail I p st n = Ok st' out -> Forall (justified st0 (TEnd n)) out.
  Proof.
    intros Hs Hn H. unfold end_tail in H.
    assert (Ha : lookup n (elsAndAttrs p) <> None \/ existsb (fun e => mmatch I (snd (fst e)) n) (elsMatchingAndAttrs p) = true -> elem_allowed n = true).
    { unfold elem_allowed, has_key. intros [Hl|He]; [destruct (lookup n (elsAndAttrs p)); [reflexivity | congruence] | rewrite He; apply orb_true_r]. }
    unfold space_if_adding in H.
    destruct (lookup n (elsAndAttrs p)) eqn:El.
    - destruct (skip st) eqn:Es; inv_ok; repeat constructor; simpl; repeat split; auto; try congruence. apply Ha. left. congruence.
    - destruct (existsb (fun e => mmatch I (snd (fst e)) n) (elsMatchingAndAttrs p)) eqn:Em.
      + cbn [negb] in H. rewrite andb_false_r in H.
        destruct (skip st) eqn:Es; inv_ok; repeat constructor; simpl; repeat split; auto; try congruence.
      + break_hyp H; destruct (addSpaces p) eqn:?; repeat constructor; simpl; auto.
  Qed.

  Theorem step_justified st t st' out : step I p st t = Ok st' out -> Forall (justified st t) out.
  Proof.
    intros H. destruct t as [d | n a | n | n a | d | d]; cbn [step] in H.
    - (* text *)
      rewrite safe in H. break_hyp H; repeat constructor; simpl; auto.
    - (* start *)
      rewrite safe in H. cbn [negb] in H. rewrite andb_true_r in H.
      destruct (is_script_or_style n) eqn:En; [inv_ok; constructor|].
      destruct (element_policies I p n) as [aps|] eqn:Ep.
      + destruct ((match clean_attrs I p n a aps with [] => true | _ => false end) && negb (allow_no_attrs I p n)) eqn:Eb.
        * inv_ok. unfold space_if_adding. destruct (addSpaces p) eqn:?; repeat constructor; auto.
        * unfold kept_start in H. cbn [skip set_recent] in H.
          assert (J : skip st = false -> justified st (TStart n a) (ITag (TStart n (clean_attrs I p n a aps)))).
          { intros Hs. simpl. split; [exact Hs|]. split; [exact En|]. exists a, aps. repeat split; auto.
            intros E0. rewrite E0 in Eb. simpl in Eb. destruct (allow_no_attrs I p n); auto; discriminate. }
          break_hyp H; (destruct (skip st) eqn:Es; [constructor | constructor; [apply J; reflexivity | constructor]]).
      + inv_ok. unfold space_if_adding. destruct (addSpaces p) eqn:?; repeat constructor; auto.
    - (* end *)
      rewrite safe in H. cbn [negb] in H. rewrite andb_true_r in H.
      set (st0 := if beqb (recent st) (normalise n) then set_recent st [] else st) in *.
      assert (Hs0 : skip st = skip st0) by (subst st0; destruct (beqb _ _); reflexivity).
      clearbody st0.
      destruct (is_script_or_style n) eqn:En; [inv_ok; constructor|].
      destruct (skipClosing st0).
      + destruct (stack st0) as [|[top k] rest]; [discriminate|].
        destruct (beqb top n); [|eapply end_tail_justified; eauto].
        destruct k.
        * inv_ok. unfold space_if_adding. destruct (addSpaces p) eqn:?; repeat constructor; auto.
        * eapply end_tail_justified; [| |eauto]; auto.
      + eapply end_tail_justified; eauto.
    - (* self closing *)
      rewrite safe in H. cbn [negb] in H. rewrite andb_true_r in H.
      destruct (is_script_or_style n) eqn:En; [inv_ok; constructor|].
      unfold space_if_adding in H. cbn [skip set_recent] in H.
      destruct (element_policies I p n) as [aps|] eqn:Ep.
      + assert (J : skip st = false -> (clean_attrs I p n a aps = [] -> allow_no_attrs I p n = true) ->
                    justified st (TSelf n a) (ITag (TSelf n (clean_attrs I p n a aps)))).
        { intros Hs Hb. simpl. split; [exact Hs|]. split; [exact En|]. exists a, aps. repeat split; auto. }
        destruct (clean_attrs I p n a aps) as [|x l] eqn:Ea.
        * destruct (allow_no_attrs I p n) eqn:Ena; cbn [negb] in H.
          -- destruct (skip st) eqn:Es; inv_ok; [constructor | constructor; [apply J; auto | constructor]].
          -- inv_ok. destruct (addSpaces p) eqn:?; repeat constructor; auto.
        * destruct (skip st) eqn:Es; inv_ok; [constructor | constructor; [apply J; auto; discriminate | constructor]].
      + inv_ok. destruct (addSpaces p) eqn:?; repeat constructor; auto.
    - (* comment *)
      destruct (allowComments p) eqn:Ec; destruct (skip st) eqn:Es; simpl in H; inv_ok; repeat constructor; simpl; auto.
    - inv_ok. constructor.
  Qed.

  (* nothing but blanks is emitted while content is being skipped *)
  Theorem step_skip_only_spaces st t st' out :
    step I p st t = Ok st' out -> skip st = true -> Forall (fun it => it = ISpace) out.
  Proof.
    intros H Hs. pose proof (step_justified _ _ _ _ H) as J.
    eapply Forall_impl; [|exact J]. intros it Hj. destruct it as [|[]| | |]; simpl in Hj; auto;
      try contradiction; try (destruct Hj as [Hx _]; congruence); try (destruct Hj as (_ & Hx); congruence);
      try (destruct Hj as (_ & Hx & _); congruence); try (destruct Hj as (_ & _ & Hx); congruence).
  Qed.

  (* C05: the text token that follows a script/style start tag (its raw-text body) yields nothing *)
  Theorem script_body_dropped st n a st1 out1 d :
    is_script_or_style n = true ->
    (step I p st (TStart n a) = Ok st1 out1 \/ step I p st (TSelf n a) = Ok st1 out1) ->
    out1 = [] /\ step I p st1 (TText d) = Ok st1 [].
  Proof.
    intros Hn [H|H]; cbn [step] in H; rewrite safe, Hn in H; cbn in H; inv_ok; split; auto;
      cbn [step skip recent set_recent]; destruct (skip st); auto;
      unfold is_script_or_style in Hn; rewrite Hn, safe; reflexivity.
  Qed.
End LoopProps.

Arguments elem_allowed {M U R} I p n.
Arguments justified {M U R} I p st t it.
Arguments step_justified {M U R} I p safe st t st' out.
Arguments step_skip_only_spaces {M U R} I p safe st t st' out.
Arguments script_body_dropped {M U R} I p safe st n a st1 out1 d.
Arguments element_policies_allowed {M U R} I p n.

Section RunProps.
  Variables M U R : Type.
  Variable I : interp M U R.
  Variable p : policy M U R.
  Hypothesis safe : allowUnsafe p = false.

  Lemma run_from_justified : forall ts st,
    Forall (fun it => exists st' t, In t ts /\ justified I p st' t it) (fst (run_from I p st ts)).
  Proof.
    induction ts as [|t ts IH]; intros st; cbn [run_from]; [constructor|].
    destruct (step I p st t) as [st1 out|] eqn:E; [|constructor].
    specialize (IH st1). destruct (run_from I p st1 ts) as [rest pn]. cbn [fst] in *.
    apply Forall_app. split.
    - eapply Forall_impl; [|exact (step_justified I p safe _ _ _ _ E)].
      intros it Hj. exists st, t. split; [left; reflexivity | exact Hj].
    - eapply Forall_impl; [|exact IH]. intros it (st' & t' & Hin & Hj). exists st', t'. split; [right; exact Hin | exact Hj].
  Qed.

  (* every emitted item is justified by some input token *)
  Theorem emitted_justified : forall ts it, In it (emitted I p ts) -> exists st t, In t ts /\ justified I p st t it.
  Proof.
    intros ts it Hin. unfold emitted, run_items in Hin.
    pose proof (run_from_justified ts init_state) as H. rewrite Forall_forall in H. apply H. exact Hin.
  Qed.
End RunProps.
Arguments emitted_justified {M U R} I p safe ts it.
