(* Where the stability of the style filter comes from: if the declaration parser reads a rebuilt
   declaration list back as the declarations it was built from (a statement about douceur, the
   parser oracle), the filter keeps all of them again. *)
From Coq Require Import List NArith Bool Lia.
Import ListNotations.
From BM Require Import Bytes Utf8 Strings Tokenizer Policy Url Style Attrs Loop GenTables AttrsSound AttrIdem.
Open Scope N_scope.

Section StyleIdem.
  Variables M U R : Type.
  Variable I : interp M U R.
  Variable p : policy M U R.

  Definition render_decls (l : list (bytes * bytes)) : bytes :=
    join (map (fun d => fst d ++ [58; 32] ++ snd d) l) [59; 32].

  (* the parser oracle re-reads what sanitizeStyles rebuilds *)
  Definition parse_stable : Prop :=
    forall v decs (f : bytes * bytes -> bool), css_decls I (style_input v) = Some decs -> filter f decs <> [] ->
      css_decls I (style_input (render_decls (filter f decs))) = Some (filter f decs).

  Lemma filter_filter {A} (f : A -> bool) l : filter f (filter f l) = filter f l.
  Proof.
    induction l as [|a l IH]; [reflexivity|]. cbn [filter]. destruct (f a) eqn:E; [cbn [filter]; rewrite E, IH; reflexivity | exact IH].
  Qed.

  Theorem style_stable_of_parse_stable elem : parse_stable -> style_stable M U R I p elem.
  Proof.
    intros Hps _ v Hne. rewrite (sanitize_styles_spec I p elem v) in *.
    destruct (css_decls I (style_input v)) as [decs|] eqn:Ed; [|congruence].
    set (f := fun d : bytes * bytes => decodable (snd d) && existsb (style_accepts I (seen_value (snd d))) (rules_for I p elem (fst d))) in *.
    fold (render_decls (filter f decs)) in *.
    assert (Hk : filter f decs <> []).
    { intros E. rewrite E in Hne. apply Hne. reflexivity. }
    rewrite (sanitize_styles_spec I p elem (render_decls (filter f decs))), (Hps v decs f Ed Hk).
    fold f. rewrite filter_filter. reflexivity.
  Qed.
End StyleIdem.
