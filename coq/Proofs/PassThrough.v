(* C07 at the level of bytes: a document that is the canonical serialisation of items the policy
   allows (every tag allowed, attributes a fixpoint of the attribute filter, text escaped) is
   returned byte for byte. *)
From Coq Require Import List NArith ZArith Bool Lia.
Import ListNotations.
From BM Require Import Bytes Utf8 Strings Escape Tokenizer Policy Url Style Attrs Loop LoopInv LoopProps
  RoundTrip Retokenize TokenizerWf SanRoundTrip TokenLevel.
Open Scope N_scope.

Definition render_items (its : list item) : bytes := concat (map render_item its).

Section PassThrough.
  Variables M U R : Type.
  Variable I : interp M U R.
  Variable p : policy M U R.

  (* an item of a document the policy leaves alone *)
  Definition canon_tag (n : bytes) (a : list attr) : Prop :=
    is_script_or_style n = false /\
    exists aps, element_policies I p n = Some aps /\ clean_attrs I p n a aps = a /\
                (a = [] -> allow_no_attrs I p n = true).
  Definition canon_item (it : item) : Prop :=
    match it with
    | IText _ | ISpace => True
    | ITag (TStart n a) | ITag (TSelf n a) => canon_tag n a
    | ITag (TEnd n) => is_script_or_style n = false /\ elem_allowed I p n = true
    | _ => False
    end.

  Definition quiet (st : lstate) : Prop :=
    skip st = false /\ skipClosing st = false /\ recent_is_raw st = false.

  Lemma quiet_init : quiet init_state.
  Proof. repeat split. Qed.

  Lemma quiet_text st d : quiet st -> step I p st (TText d) = Ok st [IText d].
  Proof. intros (Hs & _ & Hr). cbn [step]. unfold recent_is_raw in Hr. rewrite Hs, Hr. reflexivity. Qed.

  Lemma run_text_cons st d ts : quiet st ->
    run_from I p st (TText d :: ts) = (IText d :: fst (run_from I p st ts), snd (run_from I p st ts)).
  Proof.
    intros Hq. change (run_from I p st (TText d :: ts)) with
      (match step I p st (TText d) with Panic => ([], true)
       | Ok st' out => let (rest, pn) := run_from I p st' ts in (out ++ rest, pn) end).
    rewrite (quiet_text st d Hq). destruct (run_from I p st ts); reflexivity.
  Qed.

  Lemma quiet_tag st t : quiet st -> canon_item (ITag t) -> exists st', step I p st t = Ok st' [ITag t] /\ quiet st'.
  Proof.
    intros (Hs & Hc & Hr) Hcan. destruct t as [d|n a|n|n a|d|d]; cbn [canon_item] in Hcan; try contradiction.
    - destruct Hcan as (Hn & aps & Hp & Ha & Hb). cbn [step]. rewrite Hn. cbn [andb]. rewrite Hp, Ha.
      assert (Hcond : (match a with [] => true | _ => false end) && negb (allow_no_attrs I p n) = false).
      { destruct a; [rewrite Hb by reflexivity|]; reflexivity. }
      rewrite Hcond. unfold kept_start. cbn [skip skipClosing set_recent]. rewrite Hs, Hc. cbn [andb].
      eexists. split; [reflexivity|]. repeat split; auto.
    - destruct Hcan as (Hn & Hal). cbn [step]. rewrite Hn. cbn [andb].
      set (st1 := if beqb (recent st) (normalise n) then set_recent st [] else st).
      assert (Hq : skip st1 = false /\ skipClosing st1 = false /\ recent_is_raw st1 = false).
      { subst st1. destruct (beqb (recent st) (normalise n)); repeat split; auto. }
      destruct Hq as (Hs1 & Hc1 & Hr1). rewrite Hc1. unfold end_tail.
      destruct (lookup n (elsAndAttrs p)) eqn:El.
      + rewrite Hs1. eexists. split; [reflexivity|]. repeat split; auto.
      + unfold elem_allowed, has_key in Hal. rewrite El in Hal. cbn [orb] in Hal. rewrite Hal.
        cbn [negb]. rewrite andb_false_r. rewrite Hs1. eexists. split; [reflexivity|]. repeat split; auto.
    - destruct Hcan as (Hn & aps & Hp & Ha & Hb). cbn [step]. rewrite Hn. cbn [andb]. rewrite Hp, Ha.
      cbn [skip set_recent]. rewrite Hs. destruct a as [|a0 a'].
      + rewrite Hb by reflexivity. cbn [negb]. eexists. split; [reflexivity|]. repeat split; auto.
      + eexists. split; [reflexivity|]. repeat split; auto.
  Qed.

  Lemma run_canon : forall its cur st, quiet st -> Forall canon_item its ->
    let (out, pn) := run_from I p st (coalesce its cur) in
    pn = false /\ render_items out = escape cur ++ render_items its.
  Proof.
    induction its as [|it its IH]; intros cur st Hq Hcan; cbn [coalesce].
    - unfold flushT. destruct cur as [|c cur'].
      + cbn. auto.
      + cbn [run_from]. rewrite (quiet_text st (c :: cur') Hq). cbn [run_from]. split; [reflexivity|].
        unfold render_items. cbn [map concat render_item app]. rewrite !app_nil_r. reflexivity.
    - inversion Hcan as [|? ? Hit Hits]; subst.
      destruct it as [|t|d|d|d]; cbn [canon_item] in Hit; try contradiction.
      + (* blank *)
        specialize (IH (cur ++ [32]) st Hq Hits). destruct (run_from I p st (coalesce its (cur ++ [32]))) as [out pn]. cbv beta iota in IH.
        destruct IH as [-> Ho]. split; [reflexivity|]. rewrite Ho, escape_app, <- app_assoc.
        unfold render_items. reflexivity.
      + (* tag *)
        assert (Htag : forall st0, quiet st0 ->
                  let (out, pn) := run_from I p st0 (t :: coalesce its []) in
                  pn = false /\ render_items out = render1 t ++ render_items its).
        { intros st0 Hq0. destruct (quiet_tag st0 t Hq0 Hit) as (st' & Est & Hq').
          cbn [run_from]. rewrite Est. specialize (IH [] st' Hq' Hits).
          destruct (run_from I p st' (coalesce its [])) as [rest pn]. cbv beta iota in IH. destruct IH as [-> IH]. split; [reflexivity|].
          unfold render_items in *. cbn [app map concat render_item]. rewrite IH. reflexivity. }
        unfold flushT. destruct cur as [|c cur'].
        * specialize (Htag st Hq). destruct (run_from I p st (t :: coalesce its [])) as [out pn]. cbv beta iota in Htag.
          destruct Htag as [-> Ho]. split; [reflexivity|]. rewrite Ho. unfold render_items. reflexivity.
        * rewrite (run_text_cons st (c :: cur') _ Hq).
          specialize (Htag st Hq).
          destruct (run_from I p st (t :: coalesce its [])) as [out pn]. cbv beta iota in Htag.
          destruct Htag as [-> Ho]. cbn [fst snd]. split; [reflexivity|].
          unfold render_items in *. cbn [app map concat render_item]. rewrite Ho. reflexivity.
      + (* text *)
        specialize (IH (cur ++ d) st Hq Hits). destruct (run_from I p st (coalesce its (cur ++ d))) as [out pn]. cbv beta iota in IH.
        destruct IH as [-> Ho]. split; [reflexivity|]. rewrite Ho, escape_app, <- app_assoc.
        unfold render_items. reflexivity.
  Qed.

  Theorem pass_through its : Forall item_ok its -> Forall canon_item its ->
    sanitize_bytes I p (render_items its) = render_items its.
  Proof.
    intros Hok Hcan. unfold sanitize_bytes, sanitize_tokens, render_items at 1.
    rewrite (tokenize_rendered_items its Hok).
    pose proof (run_canon its [] init_state quiet_init Hcan) as H.
    unfold emitted, run_items. destruct (run_from I p init_state (coalesce its [])) as [out pn]. cbv beta iota in H.
    destruct H as [_ H]. exact H.
  Qed.

  (* ---- idempotence reduced to the attribute filter (C20) ---- *)
  Hypothesis Hplain : plain_policy I p.
  Hypothesis Hnocomments : allowComments p = false.     (* a comment is written with its data escaped again *)
  (* the premise, asked only of the tags that occur in the input *)
  Definition attrs_stable_on (ts : list token) : Prop :=
    forall n a aps, In (TStart n a) ts \/ In (TSelf n a) ts -> element_policies I p n = Some aps ->
      clean_attrs I p n (clean_attrs I p n a aps) aps = clean_attrs I p n a aps.

  Lemma emitted_canon_on ts : attrs_stable_on ts -> Forall canon_item (emitted I p ts).
  Proof.
    intros Hst. apply Forall_forall. intros it Hin.
    destruct (emitted_justified I p (plain_safe M U R I p Hplain) ts it Hin) as (st & t & Ht & Hj).
    destruct it as [|[d|n a|n|n a|d|d]|d|d|d]; cbn [justified] in Hj; cbn [canon_item]; try contradiction; auto.
    - destruct Hj as (_ & Hs & a0 & aps & -> & Hp & -> & Hb). split; [exact Hs|]. exists aps. split; [exact Hp|].
      split; [apply Hst; [left; exact Ht | exact Hp] | exact Hb].
    - destruct Hj as (_ & _ & Hs & Ha). auto.
    - destruct Hj as (_ & Hs & a0 & aps & -> & Hp & -> & Hb). split; [exact Hs|]. exists aps. split; [exact Hp|].
      split; [apply Hst; [right; exact Ht | exact Hp] | exact Hb].
    - destruct Hj as (_ & Hc & _). congruence.
  Qed.

  Theorem sanitize_idempotent_on s : attrs_stable_on (tokenize s) ->
    sanitize_bytes I p (sanitize_bytes I p s) = sanitize_bytes I p s.
  Proof.
    intros Hst. unfold sanitize_bytes at 2. unfold sanitize_tokens. fold (render_items (emitted I p (tokenize s))).
    apply pass_through; [apply (emitted_items_ok I p Hplain) | apply emitted_canon_on; exact Hst].
  Qed.

  Hypothesis attrs_idem : forall n a aps, element_policies I p n = Some aps ->
    clean_attrs I p n (clean_attrs I p n a aps) aps = clean_attrs I p n a aps.

  Theorem sanitize_idempotent s : sanitize_bytes I p (sanitize_bytes I p s) = sanitize_bytes I p s.
  Proof. apply sanitize_idempotent_on. intros n a aps _ Hp. apply attrs_idem. exact Hp. Qed.
End PassThrough.
Arguments sanitize_idempotent {M U R} I p Hplain Hnocomments attrs_idem s.
Arguments sanitize_idempotent_on {M U R} I p Hplain Hnocomments s.
Arguments attrs_stable_on {M U R} I p ts.
Arguments pass_through {M U R} I p its.
Arguments canon_item {M U R} I p it.
