(* The link-hardening pass is idempotent: a list that already satisfies what link_pass establishes
   (required rel tokens on every rel attribute, a rel attribute when tokens are required, a first
   target _blank when one is forced, noopener beside a target _blank) is returned unchanged.
   Likewise the crossorigin pass; and the crossorigin pass does not disturb the fixed point. *)
From Coq Require Import List NArith Bool Lia.
Import ListNotations.
From BM Require Import Bytes Utf8 Strings Tokenizer Policy Url Style Attrs GenTables ForcedAttrs LinkProofs LinkCompose.
Open Scope N_scope.

Lemma attr_eta (a : attr) : (akey a, aval a) = a.
Proof. destruct a; reflexivity. Qed.

Lemma map_fixed {A} (f : A -> A) l : (forall a, In a l -> f a = a) -> map f l = l.
Proof.
  induction l as [|a l IH]; intros H; cbn [map]; [reflexivity|].
  rewrite (H a (or_introl eq_refl)), IH; [reflexivity|]. intros b Hb. apply H. right. exact Hb.
Qed.

Section Pass1Fixed.
  Variables is_a addNF addNR addTB : bool.
  Notation lp1 := (link_pass1 is_a addNF addNR addTB).

  Definition toks_ok (v : bytes) : Prop := (addNF = true -> has_tok NOFOLLOW v) /\ (addNR = true -> has_tok NOREFERRER v).
  Definition first_blank_or_none (l : list attr) : Prop :=
    match filter (key_is TARGET) l with [] => True | t :: _ => aval t = BLANK end.

  Lemma lp1_fixed : forall attrs nf nr tb,
    rel_all toks_ok attrs ->
    (is_a = true -> addTB = true -> tb = false -> first_blank_or_none attrs) ->
    fst (fst (fst (lp1 attrs nf nr tb))) = attrs.
  Proof.
    induction attrs as [|a rest IH]; intros nf nr tb Hrel Htg; cbn [link_pass1]; [reflexivity|].
    assert (Hrel' : rel_all toks_ok rest).
    { intros b Hb Hk. apply Hrel; [right; exact Hb | exact Hk]. }
    destruct (key_is REL a && (addNF || addNR)) eqn:Erel.
    - apply andb_true_iff in Erel as [Ek _].
      destruct (Hrel a (or_introl eq_refl) Ek) as [T1 T2].
      assert (Ev : add_word addNR NOREFERRER (add_word addNF NOFOLLOW (aval a)) = aval a).
      { assert (E1 : add_word addNF NOFOLLOW (aval a) = aval a).
        { destruct addNF; [apply add_word_nodup; apply T1; reflexivity | reflexivity]. }
        rewrite E1. destruct addNR; [apply add_word_nodup; apply T2; reflexivity | reflexivity]. }
      rewrite Ev, attr_eta.
      assert (Hnt : key_is TARGET a = false) by (apply (key_excl REL TARGET); [reflexivity | exact Ek]).
      specialize (IH addNF addNR tb Hrel').
      destruct (lp1 rest addNF addNR tb) as [[[r0 x] y] z]. cbn [fst] in *. rewrite IH; [reflexivity|].
      intros Ha Ht Htb. specialize (Htg Ha Ht Htb). unfold first_blank_or_none in *. cbn [filter] in Htg. rewrite Hnt in Htg. exact Htg.
    - destruct (is_a && key_is TARGET a) eqn:Etg.
      + apply andb_true_iff in Etg as [Ea Ek].
        destruct (addTB && negb (tb || beqb (aval a) BLANK)) eqn:Eadd.
        * exfalso. apply andb_true_iff in Eadd as [Et En]. apply negb_true_iff in En. apply orb_false_iff in En as [Etb Enb].
          specialize (Htg Ea Et Etb). unfold first_blank_or_none in Htg. cbn [filter] in Htg. rewrite Ek in Htg.
          rewrite Htg, beqb_refl in Enb. discriminate.
        * specialize (IH nf nr (tb || beqb (aval a) BLANK) Hrel').
          destruct (lp1 rest nf nr (tb || beqb (aval a) BLANK)) as [[[r0 x] y] z]. cbn [fst] in *. rewrite IH; [reflexivity|].
          intros _ Ht Htb. apply orb_false_iff in Htb as [Etb Enb]. rewrite Ht, Etb, Enb in Eadd. discriminate.
      + specialize (IH nf nr tb Hrel').
        destruct (lp1 rest nf nr tb) as [[[r0 x] y] z]. cbn [fst] in *. rewrite IH; [reflexivity|].
        intros Ha Ht Htb. specialize (Htg Ha Ht Htb). unfold first_blank_or_none in *. cbn [filter] in Htg.
        rewrite Ha in Etg. cbn [andb] in Etg. rewrite Etg in Htg. exact Htg.
  Qed.
End Pass1Fixed.

Lemma noopener_fixed l : has_rel l = true -> rel_all (has_tok NOOPENER) l -> noopener_pass l = l.
Proof.
  intros Hh Ht. unfold noopener_pass. unfold has_rel, has_key_attr in Hh. rewrite Hh.
  apply map_fixed. intros a Ha. destruct (key_is REL a) eqn:Ek; [|reflexivity].
  specialize (Ht a Ha Ek). unfold has_tok in Ht. rewrite Ht. reflexivity.
Qed.

Section LinkFixed.
  Variables M U R : Type.
  Variable I : interp M U R.
  Variable p : policy M U R.
  Variable elem : bytes.

  (* what link_pass establishes, for the options in force and the kind of link found *)
  Definition link_post (ext : bool) (x : list attr) : Prop :=
    let is_a := beqb elem (B"a") in
    let NF := requireNoFollow p || (ext && requireNoFollowFQ p) in
    let NR := requireNoReferrer p || (ext && requireNoReferrerFQ p) in
    let TB := ext && addTargetBlank p in
    (NF = true -> has_rel x = true /\ rel_all (has_tok NOFOLLOW) x) /\
    (NR = true -> has_rel x = true /\ rel_all (has_tok NOREFERRER) x) /\
    (is_a = true -> TB = true -> first_target_blank x) /\
    (is_a = true -> has_blank_target x = true -> has_rel x = true /\ rel_all (has_tok NOOPENER) x).

  Lemma link_pass_fixed x ext : href_external I x = (true, ext) -> link_post ext x -> link_pass I p elem x = x.
  Proof.
    intros Hh (P1 & P2 & P3 & P4).
    destruct (link_pass_cases M U R I p elem x) as [E | (Ho & Hn & He & ext' & Hh')]; [exact E|].
    rewrite Hh in Hh'. inversion Hh'; subst ext'. clear Hh'.
    unfold link_pass. fold (link_options_on M U R p). rewrite Ho, He.
    destruct x as [|x0 xr] eqn:Ex; [congruence|]. rewrite <- Ex in *. cbn [andb]. rewrite Hh.
    set (is_a := beqb elem (B"a")) in *.
    set (NF := requireNoFollow p || (ext && requireNoFollowFQ p)) in *.
    set (NR := requireNoReferrer p || (ext && requireNoReferrerFQ p)) in *.
    set (TB := ext && addTargetBlank p) in *.
    destruct (link_pass1 is_a NF NR TB x false false false) as [[[tmp nf] nr] tb] eqn:E1.
    assert (Hrel : rel_all (toks_ok NF NR) x).
    { intros b Hb Hk. split; intros HN; [apply (proj2 (P1 HN)) | apply (proj2 (P2 HN))]; assumption. }
    assert (Htmp : tmp = x).
    { pose proof (lp1_fixed is_a NF NR TB x false false false Hrel) as Hf. rewrite E1 in Hf. cbn [fst] in Hf. apply Hf.
      intros Ha Ht _. specialize (P3 Ha Ht). unfold first_target_blank in P3. unfold first_blank_or_none.
      destruct (filter (key_is TARGET) x); [exact Logic.I | exact P3]. }
    subst tmp.
    destruct (lp1_spec is_a NF NR TB _ _ _ _ _ _ _ _ E1) as (_ & S2 & _ & _ & S5 & S6 & _).
    assert (E1' : (if nf || nr || tb then x else x) = x) by (destruct (nf || nr || tb); reflexivity).
    rewrite E1'. clear E1'.
    (* no rel is appended *)
    assert (E2 : (NF && negb nf) || (NR && negb nr) = false).
    { destruct (NF || NR) eqn:Eadd.
      - assert (Hhr : has_rel x = true).
        { apply orb_true_iff in Eadd as [HN|HN]; [apply (proj1 (P1 HN)) | apply (proj1 (P2 HN))]. }
        rewrite Hhr in S2. cbn [andb] in S2. destruct S2 as [-> ->]. rewrite !andb_negb_r. reflexivity.
      - apply orb_false_iff in Eadd as [-> ->]. reflexivity. }
    rewrite E2.
    (* no target is appended *)
    assert (E3 : is_a && TB && negb tb = false).
    { destruct is_a eqn:Ea; [|reflexivity]. destruct TB eqn:Et; [|reflexivity]. cbn [andb].
      specialize (P3 eq_refl eq_refl). specialize (S5 eq_refl). cbn [orb] in S5.
      fold blank_target in S5. fold (has_blank_target x) in S5. rewrite has_blank_filter in S5.
      unfold first_target_blank in P3. destruct (filter (key_is TARGET) x) as [|t0 ts]; [contradiction|].
      cbn [existsb] in S5. rewrite P3, beqb_refl in S5. rewrite S5. reflexivity. }
    rewrite E3.
    destruct tb; [|reflexivity].
    destruct is_a eqn:Ea; [|specialize (S6 eq_refl); discriminate S6].
    specialize (S5 eq_refl). cbn [orb] in S5. fold blank_target in S5. fold (has_blank_target x) in S5.
    destruct (P4 eq_refl (eq_sym S5)) as [Q1 Q2]. apply noopener_fixed; assumption.
  Qed.

  (* link_pass reaches its own postcondition, and keeps the href attributes: it is idempotent *)
  Lemma link_post_of_pass l ext : link_options_on M U R p = true -> l <> [] -> mem elem link_rel_elements = true ->
    href_external I l = (true, ext) -> link_post ext (link_pass I p elem l) /\ href_external I (link_pass I p elem l) = (true, ext).
  Proof.
    intros Ho Hn He Hh.
    pose proof (link_pass_spec M U R I p elem l ext Ho Hn He Hh) as S. cbv zeta in S.
    destruct S as (S1 & S2 & S3 & S4 & _ & S6). split.
    - unfold link_post. cbv zeta. repeat split; try (apply S1; assumption); try (apply S2; assumption); try (apply S3; assumption); apply S4; assumption.
    - rewrite <- Hh. apply href_external_same. apply S6; reflexivity.
  Qed.

  Theorem link_pass_idem l : link_pass I p elem (link_pass I p elem l) = link_pass I p elem l.
  Proof.
    destruct (link_pass_cases M U R I p elem l) as [E | (Ho & Hn & He & ext & Hh)]; [rewrite !E; reflexivity|].
    destruct (link_post_of_pass l ext Ho Hn He Hh) as [HP HH]. apply (link_pass_fixed _ ext); assumption.
  Qed.

  (* the postcondition speaks of the rel, target and href attributes only *)
  Lemma link_post_same ext x y : filter (key_is REL) x = filter (key_is REL) y -> filter (key_is TARGET) x = filter (key_is TARGET) y ->
    link_post ext x -> link_post ext y.
  Proof.
    intros Hr Ht (P1 & P2 & P3 & P4). unfold link_post. cbv zeta.
    assert (Hhr : has_rel y = has_rel x) by (symmetry; apply has_rel_same; exact Hr).
    assert (Hbl : has_blank_target y = has_blank_target x) by (symmetry; apply has_blank_same; exact Ht).
    split; [|split; [|split]].
    - intros HN. destruct (P1 HN) as [A B]. split; [congruence | eapply rel_all_same; eauto].
    - intros HN. destruct (P2 HN) as [A B]. split; [congruence | eapply rel_all_same; eauto].
    - intros Ha HT. eapply first_target_same; eauto.
    - intros Ha Hb. rewrite Hbl in Hb. destruct (P4 Ha Hb) as [A B]. split; [congruence | eapply rel_all_same; eauto].
  Qed.

  (* ---- crossorigin ---- *)
  Lemma crossorigin_pass_idem l : crossorigin_pass p elem (crossorigin_pass p elem l) = crossorigin_pass p elem l.
  Proof.
    destruct (requireCrossOrigin p && (match l with [] => false | _ => true end) && mem elem crossorigin_elements) eqn:Ec;
      [|unfold crossorigin_pass at 2; rewrite Ec; reflexivity].
    assert (Eout : crossorigin_pass p elem l =
                   if existsb (key_is CROSSORIGIN) l then map (fun a => if key_is CROSSORIGIN a then (akey a, B"anonymous") else a) l
                   else l ++ [(CROSSORIGIN, B"anonymous")]) by (unfold crossorigin_pass; rewrite Ec; reflexivity).
    apply andb_true_iff in Ec as [Ec Em]. apply andb_true_iff in Ec as [Er En].
    rewrite Eout. set (out := if existsb (key_is CROSSORIGIN) l then _ else _).
    assert (Hne : (match out with [] => false | _ => true end) = true).
    { subst out. destruct l; [discriminate|]. destruct (existsb _ _); reflexivity. }
    assert (Hex : existsb (key_is CROSSORIGIN) out = true).
    { subst out. destruct (existsb (key_is CROSSORIGIN) l) eqn:Ex.
      - rewrite existsb_map_key by (intros a; destruct (key_is _ a); reflexivity). exact Ex.
      - rewrite existsb_app. cbn [existsb]. unfold key_is at 2. cbn [akey fst]. rewrite beqb_refl. apply orb_true_r. }
    unfold crossorigin_pass. rewrite Er, Em, Hne, Hex. cbn [andb].
    apply map_fixed. intros a Ha. destruct (key_is CROSSORIGIN a) eqn:Ek; [|reflexivity].
    subst out. destruct (existsb (key_is CROSSORIGIN) l) eqn:Ex.
    - apply in_map_iff in Ha as (b & Hb & _). destruct (key_is CROSSORIGIN b) eqn:Ekb.
      + subst a. reflexivity.
      + subst a. congruence.
    - apply in_app_or in Ha as [Ha|[<-|[]]]; [|reflexivity]. exfalso.
      assert (existsb (key_is CROSSORIGIN) l = true) by (apply existsb_exists; eauto). congruence.
  Qed.

  Lemma crossorigin_pass_nonempty l : l <> [] -> crossorigin_pass p elem l <> [].
  Proof.
    intros Hn. unfold crossorigin_pass. destruct (_ && _ && _); [|exact Hn].
    destruct (existsb _ l); [destruct l; [congruence | discriminate] | destruct l; discriminate].
  Qed.

  (* the two passes together: applying them to their own result changes nothing *)
  Theorem link_crossorigin_idem l :
    let out := crossorigin_pass p elem (link_pass I p elem l) in
    crossorigin_pass p elem (link_pass I p elem out) = out.
  Proof.
    cbv zeta.
    assert (Hlp : link_pass I p elem (crossorigin_pass p elem (link_pass I p elem l)) = crossorigin_pass p elem (link_pass I p elem l)).
    { destruct (link_pass_cases M U R I p elem l) as [E | (Ho & Hn & He & ext & Hh)].
      - (* link_pass did nothing here: it does nothing after the crossorigin pass either, unless the options apply, in which
           case the list already was a fixed point *)
        rewrite E.
        destruct (link_pass_cases M U R I p elem (crossorigin_pass p elem l)) as [E' | (Ho & Hn & He & ext & Hh)]; [exact E'|].
        assert (Hh0 : href_external I l = (true, ext)).
        { rewrite <- Hh. apply href_external_same. symmetry. apply crossorigin_pass_others. reflexivity. }
        assert (Hl : l <> []) by (eapply href_external_found; eauto).
        destruct (link_post_of_pass l ext Ho Hl He Hh0) as [HP _]. rewrite E in HP.
        apply (link_pass_fixed _ ext); [exact Hh|].
        eapply link_post_same; [| |exact HP]; symmetry; apply crossorigin_pass_others; reflexivity.
      - destruct (link_post_of_pass l ext Ho Hn He Hh) as [HP HH].
        apply (link_pass_fixed _ ext).
        + rewrite <- HH. apply href_external_same. apply crossorigin_pass_others. reflexivity.
        + eapply link_post_same; [| |exact HP]; symmetry; apply crossorigin_pass_others; reflexivity. }
    rewrite Hlp. apply crossorigin_pass_idem.
  Qed.
End LinkFixed.
