(* Invariants of the token loop, for every token list (malformed input included). *)
From Coq Require Import List NArith ZArith Bool Lia.
Import ListNotations.
From BM Require Import Bytes Utf8 Strings Escape Tokenizer Policy Url Style Attrs Loop.
Open Scope N_scope.

Ltac inv_ok :=
  repeat match goal with
  | H : Ok _ _ = Ok _ _ |- _ => inversion H; subst; clear H
  | H : Panic = Ok _ _ |- _ => discriminate H
  | H : Ok _ _ = Panic |- _ => discriminate H
  end.

Ltac break_hyp H :=
  repeat (inv_ok;
    match type of H with
    | context [match ?x with _ => _ end] => destruct x eqn:?
    | context [if ?x then _ else _] => destruct x eqn:?
    end); inv_ok.

Section LoopInv.
  Variables M U R : Type.
  Variable I : interp M U R.
  Variable p : policy M U R.

  (* the Go index expression closingTagToSkipStack[len-1] is evaluated only when skipClosingTag
     is set; it cannot panic because of this invariant *)
  Definition Inv (st : lstate) : Prop := skipClosing st = true <-> stack st <> [].

  Lemma inv_init : Inv init_state.
  Proof. unfold Inv, init_state; simpl. split; [discriminate | congruence]. Qed.

  Lemma inv_set_recent st r : Inv st -> Inv (set_recent st r).
  Proof. unfold Inv, set_recent; simpl; auto. Qed.

  Lemma inv_push st (n : bytes * nat) sk sc r : Inv {| skip := sk; skipCount := sc; skipClosing := true; stack := n :: stack st; recent := r |}.
  Proof. unfold Inv; simpl. split; [discriminate | auto]. Qed.

  Lemma inv_same st sk sc r : Inv st -> Inv {| skip := sk; skipCount := sc; skipClosing := skipClosing st; stack := stack st; recent := r |}.
  Proof. unfold Inv; simpl; auto. Qed.

  Lemma inv_pop sk sc rest r :
    Inv {| skip := sk; skipCount := sc; skipClosing := match rest with [] => false | _ => true end; stack := rest; recent := r |}.
  Proof. unfold Inv; simpl. destruct rest; split; try discriminate; try congruence; auto. Qed.

  Lemma inv_true_cons sk sc (x : bytes * nat) rest r :
    Inv {| skip := sk; skipCount := sc; skipClosing := true; stack := x :: rest; recent := r |}.
  Proof. unfold Inv; simpl. split; [discriminate | auto]. Qed.

  Lemma kept_start_inv st n c st' out : Inv st -> kept_start st n c = Ok st' out -> Inv st'.
  Proof.
    intros Hi H. unfold kept_start in H.
    destruct (skipClosing st) eqn:Esc; simpl in H; [|inv_ok; auto].
    destruct (negb (is_void n)); [|inv_ok; auto].
    destruct (stack st) as [|[top k] rest] eqn:E; [discriminate|].
    destruct (beqb top n); inv_ok; auto.
    apply inv_true_cons.
  Qed.

  Lemma kept_start_no_panic st n c : Inv st -> kept_start st n c <> Panic.
  Proof.
    intros Hi. unfold kept_start.
    destruct (skipClosing st) eqn:Esc; simpl; [|discriminate].
    destruct (negb (is_void n)); [|discriminate].
    destruct (stack st) as [|[top k] rest] eqn:E.
    - exfalso. apply Hi in Esc. auto.
    - destruct (beqb top n); discriminate.
  Qed.

  Lemma end_tail_inv st n st' out : Inv st -> end_tail I p st n = Ok st' out -> Inv st'.
  Proof.
    intros Hi H. unfold end_tail in H.
    break_hyp H; auto; try (apply inv_same; assumption).
  Qed.

  Lemma end_tail_no_panic st n : end_tail I p st n <> Panic.
  Proof.
    unfold end_tail.
    repeat match goal with |- context [match ?x with _ => _ end] => destruct x | |- context [if ?x then _ else _] => destruct x end;
      discriminate.
  Qed.

  Lemma step_inv st t st' out : Inv st -> step I p st t = Ok st' out -> Inv st'.
  Proof.
    intros Hi H. destruct t as [d | n a | n | n a | d | d]; cbn [step] in H.
    - (* text *) break_hyp H; auto.
    - (* start *)
      pose proof (inv_set_recent st (normalise n) Hi) as Hi'.
      destruct (is_script_or_style n && negb (allowUnsafe p)); [inv_ok; auto|].
      destruct (element_policies I p n) as [aps|].
      + destruct ((match clean_attrs I p n a aps with [] => true | _ => false end) && negb (allow_no_attrs I p n)).
        * inv_ok. destruct (is_void n); auto; try apply inv_push.
        * eapply kept_start_inv; eauto.
      + inv_ok. destruct (mem n (elsSkipContent p) && negb (is_void n)); auto; try (apply inv_same; assumption).
    - (* end *)
      set (st0 := if beqb (recent st) (normalise n) then set_recent st [] else st) in *.
      assert (Hi0 : Inv st0) by (subst st0; destruct (beqb _ _); auto using inv_set_recent).
      clearbody st0.
      destruct (is_script_or_style n && negb (allowUnsafe p)); [inv_ok; auto|].
      destruct (skipClosing st0) eqn:Esc.
      + destruct (stack st0) as [|[top k] rest] eqn:Est; [discriminate|].
        destruct (beqb top n).
        * destruct k as [|k'].
          -- inv_ok. apply inv_pop.
          -- eapply end_tail_inv; [|eauto]. apply inv_true_cons.
        * eapply end_tail_inv; eauto.
      + eapply end_tail_inv; eauto.
    - (* self closing *)
      pose proof (inv_set_recent st (normalise n) Hi) as Hi'.
      break_hyp H; auto.
    - (* comment *) break_hyp H; auto.
    - (* doctype *) inv_ok; auto.
  Qed.

  Lemma step_no_panic st t : Inv st -> step I p st t <> Panic.
  Proof.
    intros Hi. destruct t as [d | n a | n | n a | d | d]; cbn [step].
    - repeat match goal with |- context [if ?x then _ else _] => destruct x end; discriminate.
    - pose proof (inv_set_recent st (normalise n) Hi) as Hi'.
      destruct (is_script_or_style n && negb (allowUnsafe p)); [discriminate|].
      destruct (element_policies I p n) as [aps|]; [|discriminate].
      destruct ((match clean_attrs I p n a aps with [] => true | _ => false end) && negb (allow_no_attrs I p n)); [discriminate|].
      apply kept_start_no_panic; auto.
    - set (st0 := if beqb (recent st) (normalise n) then set_recent st [] else st).
      assert (Hi0 : Inv st0) by (subst st0; destruct (beqb _ _); auto using inv_set_recent).
      clearbody st0.
      destruct (is_script_or_style n && negb (allowUnsafe p)); [discriminate|].
      destruct (skipClosing st0) eqn:Esc.
      + destruct (stack st0) as [|[top k] rest] eqn:Est.
        * exfalso. apply Hi0 in Esc. auto.
        * destruct (beqb top n); [|apply end_tail_no_panic].
          destruct k; [discriminate | apply end_tail_no_panic].
      + apply end_tail_no_panic.
    - repeat match goal with |- context [match ?x with _ => _ end] => destruct x | |- context [if ?x then _ else _] => destruct x end; discriminate.
    - destruct (allowComments p && negb (skip st)); discriminate.
    - discriminate.
  Qed.

  Lemma run_from_no_panic : forall ts st, Inv st -> snd (run_from I p st ts) = false.
  Proof.
    induction ts as [|t ts IH]; intros st Hi; cbn [run_from]; auto.
    destruct (step I p st t) as [st' out|] eqn:E.
    - specialize (IH st' (step_inv _ _ _ _ Hi E)).
      destruct (run_from I p st' ts) as [rest pn]. simpl in *. exact IH.
    - exfalso. eapply step_no_panic; eauto.
  Qed.

  (* C14 (no panic): the loop never reaches the index-out-of-range state *)
  Theorem run_no_panic : forall ts, snd (run I p ts) = false.
  Proof.
    intros ts. unfold run. pose proof (run_from_no_panic ts init_state inv_init) as H.
    unfold run_items. destruct (run_from I p init_state ts) as [its pn]. exact H.
  Qed.

  Theorem run_items_no_panic : forall ts, snd (run_items I p ts) = false.
  Proof. intros ts. apply run_from_no_panic, inv_init. Qed.

  (* every write of the loop is a checked write (its error is returned) *)
  Lemma run_checked : forall ts, Forall (fun c => checked c = true) (fst (run I p ts)).
  Proof.
    intros ts. unfold run. destruct (run_items I p ts) as [its pn]. cbn [fst].
    apply Forall_forall. intros c Hc. apply in_map_iff in Hc as (it & <- & _). reflexivity.
  Qed.
End LoopInv.

Arguments step_inv {M U R} I p st t st' out.
Arguments step_no_panic {M U R} I p st t.
Arguments run_from_no_panic {M U R} I p ts st.
Arguments run_no_panic {M U R} I p ts.
Arguments run_checked {M U R} I p ts.
Arguments run_items_no_panic {M U R} I p ts.
