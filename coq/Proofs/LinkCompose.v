(* C11: the composition of the link-hardening block (link_pass) and of sanitizeAttrs around it. *)
From Coq Require Import List NArith Bool Lia.
Import ListNotations.
From BM Require Import Bytes Utf8 Strings Tokenizer Policy Url Style Attrs GenTables ForcedAttrs LinkProofs.
Open Scope N_scope.

Notation REL := (bytes_of_string "rel").
Notation TARGET := (bytes_of_string "target").
Notation HREF := (bytes_of_string "href").
Notation BLANK := (bytes_of_string "_blank").

Definition blank_target (a : attr) : bool := key_is TARGET a && beqb (aval a) BLANK.
Definition has_blank_target (l : list attr) : bool := existsb blank_target l.
Definition first_target_blank (l : list attr) : Prop :=
  match filter (key_is TARGET) l with [] => False | t :: _ => aval t = BLANK end.

Lemma key_excl k1 k2 a : beqb k1 k2 = false -> key_is k1 a = true -> key_is k2 a = false.
Proof.
  unfold key_is. intros Hne H1. apply beqb_eq in H1. rewrite H1. exact Hne.
Qed.

Lemma rel_all_nil_of_no_rel (P : bytes -> Prop) l : has_rel l = false -> rel_all P l.
Proof.
  intros H a Hin Hk. exfalso. unfold has_rel, has_key_attr in H.
  assert (existsb (key_is REL) l = true) by (apply existsb_exists; eauto). congruence.
Qed.

Lemma rel_all_app (P : bytes -> Prop) l1 l2 : rel_all P l1 -> rel_all P l2 -> rel_all P (l1 ++ l2).
Proof. intros H1 H2 a Hin Hk. apply in_app_or in Hin as [Hin|Hin]; [apply H1 | apply H2]; auto. Qed.

Lemma rel_all_other (P : bytes -> Prop) k v : beqb k REL = false -> rel_all P [(k, v)].
Proof. intros Hk a [<-|[]] Ha. unfold key_is, akey in Ha. cbn [fst] in Ha. congruence. Qed.

Lemma has_rel_app l1 l2 : has_rel (l1 ++ l2) = has_rel l1 || has_rel l2.
Proof. unfold has_rel, has_key_attr. apply existsb_app. Qed.

Section Pass1More.
  Variables is_a addNF addNR addTB : bool.
  Notation lp1 := (link_pass1 is_a addNF addNR addTB).

  (* nothing found, nothing changed *)
  Lemma lp1_unchanged : forall attrs nf nr tb r, lp1 attrs nf nr tb = (r, false, false, false) -> r = attrs.
  Proof.
    induction attrs as [|a rest IH]; intros nf nr tb r H; cbn [link_pass1] in H.
    - inversion H; reflexivity.
    - destruct (key_is REL a && (addNF || addNR)) eqn:Erel.
      + exfalso. apply andb_true_iff in Erel as [_ Eadd].
        destruct (lp1 rest addNF addNR tb) as [[[r0 nf0] nr0] tb0] eqn:E0. inversion H; subst.
        destruct (lp1_spec is_a addNF addNR addTB _ _ _ _ _ _ _ _ E0) as (_ & H2 & _).
        rewrite Eadd in H2. cbn [andb] in H2. destruct (has_rel rest); destruct H2 as [<- <-]; discriminate.
      + destruct (is_a && key_is TARGET a) eqn:Etg.
        * apply andb_true_iff in Etg as [Ea _].
          destruct (addTB && negb (tb || beqb (aval a) BLANK)).
          -- exfalso. destruct (lp1 rest nf nr true) as [[[r0 nf0] nr0] tb0] eqn:E0. revert Ea. inversion H; subst. intros Ea.
             destruct (lp1_spec is_a addNF addNR addTB _ _ _ _ _ _ _ _ E0) as (_ & _ & _ & _ & H5 & _).
             specialize (H5 Ea). discriminate.
          -- destruct (lp1 rest nf nr (tb || beqb (aval a) BLANK)) as [[[r0 nf0] nr0] tb0] eqn:E0. inversion H; subst.
             f_equal. eapply IH; eauto.
        * destruct (lp1 rest nf nr tb) as [[[r0 nf0] nr0] tb0] eqn:E0. inversion H; subst. f_equal. eapply IH; eauto.
  Qed.

  (* tokens present on every rel attribute before are present after *)
  Lemma lp1_keeps : forall t attrs nf nr tb r nf' nr' tb', lp1 attrs nf nr tb = (r, nf', nr', tb') ->
    rel_all (has_tok t) attrs -> rel_all (has_tok t) r.
  Proof.
    intros t. destruct words_ok as ((W1 & W2) & (W3 & W4) & _).
    induction attrs as [|a rest IH]; intros nf nr tb r nf' nr' tb' H Hall; cbn [link_pass1] in H.
    - inversion H; subst. intros b [].
    - assert (Hrest : rel_all (has_tok t) rest) by (intros b Hb Hk; apply Hall; [right; exact Hb | exact Hk]).
      destruct (key_is REL a && (addNF || addNR)) eqn:Erel.
      + apply andb_true_iff in Erel as [Ek _].
        destruct (lp1 rest addNF addNR tb) as [[[r0 nf0] nr0] tb0] eqn:E0. inversion H; subst.
        intros b [<-|Hb] Hk; [|eapply IH; eauto]. cbn [aval snd].
        apply add_word_keep; auto. apply add_word_keep; auto. apply Hall; [left; reflexivity | exact Ek].
      + destruct (is_a && key_is TARGET a) eqn:Etg.
        * apply andb_true_iff in Etg as [_ Ekt].
          destruct (addTB && negb (tb || beqb (aval a) BLANK)).
          -- destruct (lp1 rest nf nr true) as [[[r0 nf0] nr0] tb0] eqn:E0. inversion H; subst.
             intros b [<-|Hb] Hk; [|eapply IH; eauto]. exfalso. rewrite key_is_pair in Hk.
             rewrite (key_excl TARGET REL a eq_refl Ekt) in Hk. discriminate.
          -- destruct (lp1 rest nf nr (tb || beqb (aval a) BLANK)) as [[[r0 nf0] nr0] tb0] eqn:E0. inversion H; subst.
             intros b [<-|Hb] Hk; [apply Hall; [left; reflexivity | exact Hk] | eapply IH; eauto].
        * destruct (lp1 rest nf nr tb) as [[[r0 nf0] nr0] tb0] eqn:E0. inversion H; subst.
          intros b [<-|Hb] Hk; [apply Hall; [left; reflexivity | exact Hk] | eapply IH; eauto].
  Qed.

  (* attributes other than rel and target are untouched, in order *)
  Lemma lp1_others : forall k, beqb k REL = false -> beqb k TARGET = false ->
    forall attrs nf nr tb r nf' nr' tb', lp1 attrs nf nr tb = (r, nf', nr', tb') ->
    filter (key_is k) r = filter (key_is k) attrs.
  Proof.
    intros k Hk1 Hk2.
    assert (Hnot : forall k0 a, beqb k k0 = false -> key_is k0 a = true -> key_is k a = false).
    { intros k0 a Hne Ha. unfold key_is in *. apply beqb_eq in Ha. rewrite Ha.
      destruct (beqb k0 k) eqn:E; [|reflexivity]. apply beqb_eq in E. rewrite E, beqb_refl in Hne. discriminate. }
    induction attrs as [|a rest IH]; intros nf nr tb r nf' nr' tb' H; cbn [link_pass1] in H.
    - inversion H; reflexivity.
    - destruct (key_is REL a && (addNF || addNR)) eqn:Erel.
      + apply andb_true_iff in Erel as [Ek _].
        destruct (lp1 rest addNF addNR tb) as [[[r0 nf0] nr0] tb0] eqn:E0. inversion H; subst.
        rewrite !filter_cons, key_is_pair, (Hnot REL a Hk1 Ek). eapply IH; eauto.
      + destruct (is_a && key_is TARGET a) eqn:Etg.
        * apply andb_true_iff in Etg as [_ Ekt].
          destruct (addTB && negb (tb || beqb (aval a) BLANK)).
          -- destruct (lp1 rest nf nr true) as [[[r0 nf0] nr0] tb0] eqn:E0. inversion H; subst.
             rewrite !filter_cons, key_is_pair, (Hnot TARGET a Hk2 Ekt). eapply IH; eauto.
          -- destruct (lp1 rest nf nr (tb || beqb (aval a) BLANK)) as [[[r0 nf0] nr0] tb0] eqn:E0. inversion H; subst.
             rewrite !filter_cons. erewrite IH by eauto. reflexivity.
        * destruct (lp1 rest nf nr tb) as [[[r0 nf0] nr0] tb0] eqn:E0. inversion H; subst.
          rewrite !filter_cons. erewrite IH by eauto. reflexivity.
  Qed.
End Pass1More.

(* ---- lists: filters by key through maps and appends ---- *)
Lemma filter_key_map k (f : attr -> attr) l :
  (forall a, key_is k a = true -> f a = a) -> (forall a, key_is k a = false -> key_is k (f a) = false) ->
  filter (key_is k) (map f l) = filter (key_is k) l.
Proof.
  intros H1 H2. induction l as [|a l IH]; cbn [map filter]; [reflexivity|].
  destruct (key_is k a) eqn:E.
  - rewrite (H1 a E), E, IH. reflexivity.
  - rewrite (H2 a E), IH. reflexivity.
Qed.

Lemma filter_key_app_other k k' v l : beqb k' k = false -> filter (key_is k) (l ++ [(k', v)]) = filter (key_is k) l.
Proof. intros H. rewrite filter_app. cbn [filter]. unfold key_is at 2, akey. cbn [fst]. rewrite H. apply app_nil_r. Qed.

Lemma has_blank_filter l : has_blank_target l = existsb (fun a => beqb (aval a) BLANK) (filter (key_is TARGET) l).
Proof.
  unfold has_blank_target, blank_target. induction l as [|a l IH]; cbn [existsb filter]; [reflexivity|].
  destruct (key_is TARGET a); cbn [andb orb existsb]; rewrite IH; reflexivity.
Qed.

Lemma has_rel_filter l : has_rel l = match filter (key_is REL) l with [] => false | _ => true end.
Proof.
  unfold has_rel, has_key_attr. induction l as [|a l IH]; cbn [existsb filter]; [reflexivity|].
  destruct (key_is REL a); cbn [orb]; [reflexivity | exact IH].
Qed.

Lemma noopener_pass_others k l : beqb k REL = false -> filter (key_is k) (noopener_pass l) = filter (key_is k) l.
Proof.
  intros Hk. unfold noopener_pass. destruct (existsb (key_is REL) l).
  - apply filter_key_map.
    + intros a Ha. assert (E : key_is REL a = false) by (eapply key_excl; [|exact Ha]; exact Hk). rewrite E. reflexivity.
    + intros a Ha. destruct (key_is REL a); [destruct (has_rel_token _ _)|]; auto.
  - apply filter_key_app_other. unfold key_is in *.
    destruct (beqb REL k) eqn:E; [|reflexivity]. apply beqb_eq in E. rewrite <- E, beqb_refl in Hk. discriminate.
Qed.

Section LinkPassSpec.
  Variables M U R : Type.
  Variable I : interp M U R.
  Variable p : policy M U R.
  Variable elem : bytes.
  Variable attrs : list attr.
  Variable ext : bool.

  Definition link_options_on : bool :=
    requireNoFollow p || requireNoFollowFQ p || requireNoReferrer p || requireNoReferrerFQ p || addTargetBlank p.

  Hypothesis Hopt : link_options_on = true.
  Hypothesis Hne : attrs <> [].
  Hypothesis Hel : mem elem link_rel_elements = true.
  Hypothesis Hhref : href_external I attrs = (true, ext).

  Let is_a := beqb elem (B"a").
  Let NF := requireNoFollow p || (ext && requireNoFollowFQ p).
  Let NR := requireNoReferrer p || (ext && requireNoReferrerFQ p).
  Let TB := ext && addTargetBlank p.

  Definition added_rel_value (nf nr : bool) : bytes :=
    let v1 := if nf then NOFOLLOW else [] in
    if nr then (match v1 with [] => [] | _ => v1 ++ [32] end) ++ NOREFERRER else v1.

  Lemma added_rel_tokens nf nr :
    (nf = true -> has_tok NOFOLLOW (added_rel_value nf nr)) /\ (nr = true -> has_tok NOREFERRER (added_rel_value nf nr)).
  Proof. destruct nf, nr; split; intros H; try discriminate H; vm_compute; reflexivity. Qed.

  Theorem link_pass_spec :
    let out := link_pass I p elem attrs in
    (NF = true -> has_rel out = true /\ rel_all (has_tok NOFOLLOW) out) /\
    (NR = true -> has_rel out = true /\ rel_all (has_tok NOREFERRER) out) /\
    (is_a = true -> TB = true -> first_target_blank out) /\
    (is_a = true -> has_blank_target out = true -> has_rel out = true /\ rel_all (has_tok NOOPENER) out) /\
    (forall t, has_rel attrs = true -> rel_all (has_tok t) attrs -> rel_all (has_tok t) out) /\
    (forall k, beqb k REL = false -> beqb k TARGET = false -> filter (key_is k) out = filter (key_is k) attrs).
  Proof.
    cbv zeta. unfold link_pass. fold link_options_on. rewrite Hopt, Hel.
    destruct attrs as [|a0 ar] eqn:Eat; [congruence|]. rewrite <- Eat in *. cbn [andb]. rewrite Hhref.
    fold is_a NF NR TB.
    destruct (link_pass1 is_a NF NR TB attrs false false false) as [[[tmp nf] nr] tb] eqn:E1.
    destruct (lp1_spec is_a NF NR TB _ _ _ _ _ _ _ _ E1) as (S1 & S2 & S3 & S4 & S5 & S6 & S7).
    (* attrs1 is tmp *)
    assert (E1' : (if nf || nr || tb then tmp else attrs) = tmp).
    { destruct nf, nr, tb; try reflexivity. symmetry. eapply lp1_unchanged; eauto. }
    rewrite E1'. clear E1'.
    set (attrs2 := if (NF && negb nf) || (NR && negb nr) then tmp ++ [(REL, added_rel_value NF NR)] else tmp).
    change (if (NF && negb nf) || (NR && negb nr) then tmp ++ [(REL, _)] else tmp) with attrs2.
    (* rel facts about attrs2 *)
    assert (A2 : (NF || NR = true -> has_rel attrs2 = true /\
                    rel_all (fun v => (NF = true -> has_tok NOFOLLOW v) /\ (NR = true -> has_tok NOREFERRER v)) attrs2) /\
                 (has_rel attrs = true -> attrs2 = tmp) /\
                 (forall k, beqb k REL = false -> filter (key_is k) attrs2 = filter (key_is k) tmp)).
    { subst attrs2. destruct (NF || NR) eqn:Eadd; cbn [andb] in S2.
      - destruct (has_rel attrs) eqn:Ehr.
        + destruct S2 as [-> ->]. rewrite !andb_negb_r. cbn [orb].
          split; [intros _; split; [congruence | apply S1; reflexivity]|]. split; [reflexivity|]. reflexivity.
        + destruct S2 as [-> ->]. cbn [negb]. rewrite !andb_true_r, Eadd.
          split; [intros _; split|split; [discriminate|]].
          * rewrite has_rel_app. apply orb_true_r.
          * apply rel_all_app; [apply rel_all_nil_of_no_rel; congruence|].
            intros b [<-|[]] _. cbn [aval snd]. apply added_rel_tokens.
          * intros k Hk. apply filter_key_app_other. unfold key_is.
            destruct (beqb REL k) eqn:E; [|reflexivity]. apply beqb_eq in E. rewrite <- E, beqb_refl in Hk. discriminate.
      - apply orb_false_iff in Eadd as [-> ->]. cbn [andb orb].
        split; [discriminate|]. split; reflexivity. }
    destruct A2 as (A2rel & A2same & A2oth).
    set (c3 := is_a && TB && negb tb).
    set (attrs3 := if c3 then attrs2 ++ [(TARGET, BLANK)] else attrs2).
    set (tb3 := if c3 then true else tb).
    change (let '(attrs4, tb') := if c3 then (attrs2 ++ [(TARGET, BLANK)], true) else (attrs2, tb) in
            if tb' then noopener_pass attrs4 else attrs4)
      with (let '(attrs4, tb') := if c3 then (attrs2 ++ [(TARGET, BLANK)], true) else (attrs2, tb) in
            if tb' then noopener_pass attrs4 else attrs4).
    assert (Eout : (let '(attrs4, tb') := if c3 then (attrs2 ++ [(TARGET, BLANK)], true) else (attrs2, tb) in
                    if tb' then noopener_pass attrs4 else attrs4) = if tb3 then noopener_pass attrs3 else attrs3).
    { subst attrs3 tb3. destruct c3; reflexivity. }
    rewrite Eout. clear Eout.
    (* facts about attrs3 *)
    assert (A3rel : forall P, rel_all P attrs2 -> rel_all P attrs3).
    { intros P HP. subst attrs3. destruct c3; [|exact HP]. apply rel_all_app; [exact HP | apply rel_all_other; reflexivity]. }
    assert (A3has : has_rel attrs3 = has_rel attrs2).
    { subst attrs3. destruct c3; [|reflexivity]. rewrite has_rel_app. cbn. apply orb_false_r. }
    assert (A3oth : forall k, beqb k TARGET = false -> filter (key_is k) attrs3 = filter (key_is k) attrs2).
    { intros k Hk. subst attrs3. destruct c3; [|reflexivity]. apply filter_key_app_other. unfold key_is.
      destruct (beqb TARGET k) eqn:E; [|reflexivity]. apply beqb_eq in E. rewrite <- E, beqb_refl in Hk. discriminate. }
    (* the output keeps what attrs3 has *)
    set (out := if tb3 then noopener_pass attrs3 else attrs3).
    assert (Okeep : forall t, has_rel attrs3 = true -> rel_all (has_tok t) attrs3 -> rel_all (has_tok t) out).
    { intros t Hh Ht. subst out. destruct tb3; [apply noopener_pass_keeps; assumption | exact Ht]. }
    assert (Ohas : has_rel attrs3 = true -> has_rel out = true).
    { intros Hh. subst out. destruct tb3; [apply noopener_pass_spec | exact Hh]. }
    assert (Ooth : forall k, beqb k REL = false -> filter (key_is k) out = filter (key_is k) attrs3).
    { intros k Hk. subst out. destruct tb3; [apply noopener_pass_others; exact Hk | reflexivity]. }
    assert (Weaken : forall (P Q : bytes -> Prop) l, (forall v, P v -> Q v) -> rel_all P l -> rel_all Q l).
    { intros P Q l HPQ HP b Hb Hk. apply HPQ. apply HP; assumption. }
    split; [|split; [|split; [|split; [|split]]]].
    - intros HNF. assert (Hadd : NF || NR = true) by (rewrite HNF; reflexivity).
      destruct (A2rel Hadd) as [Hh Ht]. split; [apply Ohas; congruence|].
      apply Okeep; [congruence|]. apply A3rel. eapply Weaken; [|exact Ht]. intros v [Hv _]. auto.
    - intros HNR. assert (Hadd : NF || NR = true) by (rewrite HNR; apply orb_true_r).
      destruct (A2rel Hadd) as [Hh Ht]. split; [apply Ohas; congruence|].
      apply Okeep; [congruence|]. apply A3rel. eapply Weaken; [|exact Ht]. intros v [_ Hv]. auto.
    - intros Ha HTB. unfold first_target_blank. rewrite (Ooth TARGET eq_refl).
      subst attrs3 c3. rewrite Ha, HTB. cbn [andb]. destruct tb eqn:Etb; cbn [negb].
      + (* a _blank target exists in tmp, so the first one is _blank *)
        rewrite (A2oth TARGET eq_refl). specialize (S7 Ha HTB eq_refl). specialize (S5 Ha). cbn [orb] in S5.
        fold (has_blank_target tmp) in S5. rewrite has_blank_filter in S5.
        destruct (filter (key_is TARGET) tmp); [discriminate S5 | exact S7].
      + (* no _blank target in tmp although the first target would have been made _blank: no target *)
        rewrite filter_app, (A2oth TARGET eq_refl). specialize (S7 Ha HTB eq_refl). specialize (S5 Ha). cbn [orb] in S5.
        fold (has_blank_target tmp) in S5. rewrite has_blank_filter in S5.
        destruct (filter (key_is TARGET) tmp) as [|t0 ts]; [reflexivity|].
        exfalso. cbn [existsb] in S5. rewrite S7, beqb_refl in S5. discriminate.
    - intros Ha Hb. assert (Htb3 : tb3 = true).
      { destruct tb3 eqn:E3; [reflexivity|]. exfalso. subst out. rewrite has_blank_filter in Hb.
        subst tb3 attrs3. destruct c3 eqn:Ec3; [discriminate|]. subst tb.
        rewrite (A2oth TARGET eq_refl) in Hb. specialize (S5 Ha). cbn [orb] in S5.
        fold (has_blank_target tmp) in S5. rewrite has_blank_filter in S5. congruence. }
      subst out. rewrite Htb3. apply noopener_pass_spec.
    - intros t Hh Ht. specialize (A2same Hh).
      assert (H2 : rel_all (has_tok t) attrs2) by (rewrite A2same; eapply lp1_keeps; eauto).
      apply Okeep; [rewrite A3has, A2same, S3; exact Hh | apply A3rel; exact H2].
    - intros k Hk1 Hk2. rewrite (Ooth k Hk1), (A3oth k Hk2), (A2oth k Hk1). eapply lp1_others; eauto.
  Qed.
End LinkPassSpec.

Section LinkPassCases.
  Variables M U R : Type.
  Variable I : interp M U R.
  Variable p : policy M U R.

  Lemma link_pass_cases elem l :
    link_pass I p elem l = l \/
    (link_options_on M U R p = true /\ l <> [] /\ mem elem link_rel_elements = true /\
     exists ext, href_external I l = (true, ext)).
  Proof.
    unfold link_pass. fold (link_options_on M U R p). destruct (link_options_on M U R p); [|left; reflexivity].
    destruct l as [|x xs]; [left; reflexivity|]. destruct (mem elem link_rel_elements); [|left; reflexivity].
    cbn [andb]. destruct (href_external I (x :: xs)) as [[|] e]; [|left; reflexivity].
    right. split; [reflexivity|]. split; [discriminate|]. split; [reflexivity|]. exists e. reflexivity.
  Qed.

  Lemma link_pass_others k elem l : beqb k REL = false -> beqb k TARGET = false ->
    filter (key_is k) (link_pass I p elem l) = filter (key_is k) l.
  Proof.
    intros H1 H2. destruct (link_pass_cases elem l) as [-> | (Ho & Hn & He & ext & Hh)]; [reflexivity|].
    pose proof (link_pass_spec M U R I p elem l ext Ho Hn He Hh) as S. cbv zeta in S.
    destruct S as (_ & _ & _ & _ & _ & S6). apply S6; assumption.
  Qed.
End LinkPassCases.

(* ---- around link_pass: the other passes of sanitizeAttrs do not touch rel, target, href ---- *)
Notation CROSSORIGIN := (bytes_of_string "crossorigin").
Notation SANDBOX := (bytes_of_string "sandbox").

Lemma beqb_sym_false a b : beqb a b = false -> beqb b a = false.
Proof. intros H. destruct (beqb b a) eqn:E; [|reflexivity]. apply beqb_eq in E. subst b. rewrite beqb_refl in H. discriminate. Qed.

Lemma forced_map_others k k' (g : attr -> bytes) l : beqb k k' = false ->
  filter (key_is k) (map (fun a => if key_is k' a then (akey a, g a) else a) l) = filter (key_is k) l.
Proof.
  intros Hk. apply filter_key_map.
  - intros a Ha. rewrite (key_excl k k' a Hk Ha). reflexivity.
  - intros a Ha. destruct (key_is k' a); [exact Ha | exact Ha].
Qed.

Section Around.
  Variables M U R : Type.
  Variable I : interp M U R.
  Variable p : policy M U R.

  Lemma crossorigin_pass_others k elem l : beqb k CROSSORIGIN = false ->
    filter (key_is k) (crossorigin_pass p elem l) = filter (key_is k) l.
  Proof.
    intros Hk. unfold crossorigin_pass. match goal with |- context [if ?c then _ else l] => destruct c end; [|reflexivity].
    destruct (existsb (key_is CROSSORIGIN) l).
    - apply (forced_map_others k CROSSORIGIN (fun _ => B"anonymous")). exact Hk.
    - apply filter_key_app_other. apply beqb_sym_false. exact Hk.
  Qed.

  Lemma sandbox_pass_others k elem l : beqb k SANDBOX = false ->
    filter (key_is k) (sandbox_pass p elem l) = filter (key_is k) l.
  Proof.
    intros Hk. unfold sandbox_pass. destruct (requireSandbox p) as [allowed|]; [|reflexivity].
    destruct (beqb elem (B"iframe")); [|reflexivity].
    destruct (existsb (key_is SANDBOX) l).
    - apply (forced_map_others k SANDBOX (fun a => join (dedup_keep allowed [] (fields (aval a))) [32])). exact Hk.
    - apply filter_key_app_other. apply beqb_sym_false. exact Hk.
  Qed.

  Lemma url_pass_others k elem l : beqb k (B"href") = false -> beqb k (B"cite") = false -> beqb k (B"src") = false ->
    filter (key_is k) (flat_map (url_pass_attr I p elem) l) = filter (key_is k) l.
  Proof.
    intros H1 H2 H3. induction l as [|a l IH]; cbn [flat_map filter]; [reflexivity|].
    rewrite filter_app, IH. f_equal. unfold url_pass_attr.
    destruct (url_attr_of elem) as [k'|] eqn:Ek'; [|cbn [filter]; destruct (key_is k a); reflexivity].
    assert (Hk' : beqb k k' = false).
    { unfold url_attr_of in Ek'. destruct (mem elem href_elements); [inversion Ek'; subst; exact H1|].
      destruct (mem elem cite_elements); [inversion Ek'; subst; exact H2|].
      destruct (mem elem src_elements); [inversion Ek'; subst; exact H3 | discriminate]. }
    destruct (key_is k' a) eqn:Ea.
    - assert (Eka : key_is k a = false) by (eapply key_excl; [apply beqb_sym_false; exact Hk' | exact Ea]).
      rewrite Eka. destruct (valid_url I p (aval a)); [|reflexivity]. cbn [filter]. rewrite key_is_pair, Eka. reflexivity.
    - cbn [filter]. destruct (key_is k a); reflexivity.
  Qed.

  (* hrefFound / externalLink only look at the href attributes *)
  Lemma href_external_filter : forall l st,
    fold_left (fun st a =>
      if key_is HREF a then
        (true, snd st || match url_parse I (aval a) with Some u => match u_host u with [] => false | _ => true end | None => false end)
      else st) l st =
    fold_left (fun st a =>
      if key_is HREF a then
        (true, snd st || match url_parse I (aval a) with Some u => match u_host u with [] => false | _ => true end | None => false end)
      else st) (filter (key_is HREF) l) st.
  Proof.
    induction l as [|a l IH]; intros st; cbn [fold_left filter]; [reflexivity|].
    destruct (key_is HREF a) eqn:E; cbn [fold_left]; [rewrite E|]; apply IH.
  Qed.

  Lemma href_external_same l1 l2 : filter (key_is HREF) l1 = filter (key_is HREF) l2 ->
    href_external I l1 = href_external I l2.
  Proof. intros H. unfold href_external. rewrite (href_external_filter l1), (href_external_filter l2), H. reflexivity. Qed.

  Lemma href_external_found l ext : href_external I l = (true, ext) -> l <> [].
  Proof. intros H ->. discriminate H. Qed.
End Around.

(* facts that only depend on the rel / target attributes *)
Lemma rel_all_same (P : bytes -> Prop) l1 l2 : filter (key_is REL) l1 = filter (key_is REL) l2 -> rel_all P l1 -> rel_all P l2.
Proof.
  intros E H a Hin Hk. assert (Hf : In a (filter (key_is REL) l2)) by (apply filter_In; auto).
  rewrite <- E in Hf. apply filter_In in Hf as [Hin1 _]. apply H; assumption.
Qed.
Lemma has_rel_same l1 l2 : filter (key_is REL) l1 = filter (key_is REL) l2 -> has_rel l1 = has_rel l2.
Proof. intros E. rewrite !has_rel_filter, E. reflexivity. Qed.
Lemma has_blank_same l1 l2 : filter (key_is TARGET) l1 = filter (key_is TARGET) l2 -> has_blank_target l1 = has_blank_target l2.
Proof. intros E. rewrite !has_blank_filter, E. reflexivity. Qed.
Lemma first_target_same l1 l2 : filter (key_is TARGET) l1 = filter (key_is TARGET) l2 -> first_target_blank l1 -> first_target_blank l2.
Proof. unfold first_target_blank. intros ->. auto. Qed.

Section SanitizeAttrsLinks.
  Variables M U R : Type.
  Variable I : interp M U R.
  Variable p : policy M U R.
  Hypothesis link_rel_linkable : forall e, mem e link_rel_elements = true -> linkable e = true.

  Theorem sanitize_attrs_links elem attrs aps ext :
    let out := sanitize_attrs I p elem attrs aps in
    let clean := flat_map (filter_attr I p elem aps (has_style_policies I p elem)) attrs in
    link_options_on M U R p = true -> mem elem link_rel_elements = true ->
    href_external I out = (true, ext) ->
    let NF := requireNoFollow p || (ext && requireNoFollowFQ p) in
    let NR := requireNoReferrer p || (ext && requireNoReferrerFQ p) in
    (NF = true -> has_rel out = true /\ rel_all (has_tok NOFOLLOW) out) /\
    (NR = true -> has_rel out = true /\ rel_all (has_tok NOREFERRER) out) /\
    (beqb elem (B"a") = true -> ext && addTargetBlank p = true -> first_target_blank out) /\
    (beqb elem (B"a") = true -> has_blank_target out = true -> has_rel out = true /\ rel_all (has_tok NOOPENER) out) /\
    (forall t, has_rel clean = true -> rel_all (has_tok t) clean -> rel_all (has_tok t) out).
  Proof.
    cbv zeta. intros Hopt Hel Hhref.
    unfold sanitize_attrs in *. destruct attrs as [|a0 ar] eqn:Eat; [discriminate Hhref|]. rewrite <- Eat in *.
    set (clean := flat_map _ attrs) in *.
    destruct clean as [|c0 cl] eqn:Ec; [discriminate Hhref|]. rewrite <- Ec in *.
    rewrite (link_rel_linkable _ Hel) in *.
    set (c := if requireParseableURLs p then flat_map (url_pass_attr I p elem) clean else clean) in *.
    set (lp := link_pass I p elem c) in *.
    set (out := sandbox_pass p elem (crossorigin_pass p elem lp)) in *.
    assert (Oth : forall k, beqb k CROSSORIGIN = false -> beqb k SANDBOX = false -> filter (key_is k) out = filter (key_is k) lp).
    { intros k H1 H2. subst out. rewrite sandbox_pass_others, crossorigin_pass_others by assumption. reflexivity. }
    assert (Crel : filter (key_is REL) c = filter (key_is REL) clean).
    { subst c. destruct (requireParseableURLs p); [|reflexivity]. apply url_pass_others; reflexivity. }
    (* the href attributes of the output are those link_pass saw *)
    assert (Hne : c <> []).
    { intros E. assert (Hl : lp = []) by (subst lp; rewrite E; unfold link_pass; rewrite andb_false_r; reflexivity).
      rewrite (href_external_same M U R I out lp (Oth HREF eq_refl eq_refl)), Hl in Hhref. discriminate. }
    assert (Hc : href_external I c = (true, ext)).
    { rewrite <- Hhref. symmetry. apply href_external_same. rewrite (Oth HREF eq_refl eq_refl).
      subst lp. apply link_pass_others; reflexivity. }
    pose proof (link_pass_spec M U R I p elem c ext Hopt Hne Hel Hc) as S. cbv zeta in S. fold lp in S.
    destruct S as (S1 & S2 & S3 & S4 & S5 & _).
    assert (Orel : filter (key_is REL) lp = filter (key_is REL) out) by (symmetry; apply Oth; reflexivity).
    assert (Otg : filter (key_is TARGET) lp = filter (key_is TARGET) out) by (symmetry; apply Oth; reflexivity).
    split; [|split; [|split; [|split]]].
    - intros H. destruct (S1 H) as [A B0]. split; [rewrite <- (has_rel_same _ _ Orel); exact A | eapply rel_all_same; eauto].
    - intros H. destruct (S2 H) as [A B0]. split; [rewrite <- (has_rel_same _ _ Orel); exact A | eapply rel_all_same; eauto].
    - intros Ha Ht. eapply first_target_same; [exact Otg | apply S3; assumption].
    - intros Ha Hb. rewrite <- (has_blank_same _ _ Otg) in Hb. destruct (S4 Ha Hb) as [A B0].
      split; [rewrite <- (has_rel_same _ _ Orel); exact A | eapply rel_all_same; eauto].
    - intros t Hh Ht. eapply rel_all_same; [exact Orel|]. apply S5.
      + rewrite (has_rel_same _ _ Crel). exact Hh.
      + eapply rel_all_same; [symmetry; exact Crel | exact Ht].
  Qed.
End SanitizeAttrsLinks.
