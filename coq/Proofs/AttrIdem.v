(* Idempotence of the attribute filter on its own output (the premise of
   PassThrough.sanitize_idempotent), first for elements none of whose attributes are rewritten. *)
From Coq Require Import List NArith Bool Lia.
Import ListNotations.
From BM Require Import Bytes Utf8 Strings Tokenizer Policy Url Style Attrs Loop GenTables.
Open Scope N_scope.

Lemma flat_map_fixed {A} (f : A -> list A) : forall l, (forall b, In b l -> f b = [b]) -> flat_map f l = l.
Proof.
  induction l as [|a l IH]; intros H; cbn [flat_map]; [reflexivity|].
  rewrite (H a (or_introl eq_refl)), IH; [reflexivity|]. intros b Hb. apply H. right. exact Hb.
Qed.
Lemma flat_map_idem {A} (f : A -> list A) :
  (forall a b, In b (f a) -> f b = [b]) -> forall l, flat_map f (flat_map f l) = flat_map f l.
Proof.
  intros Hf. induction l as [|a l IH]; cbn [flat_map]; [reflexivity|].
  rewrite flat_map_app, IH. f_equal. apply flat_map_fixed. intros b Hb. exact (Hf a b Hb).
Qed.

Lemma crossorigin_elements_linkable : forallb (fun x => mem x linkable_elements) crossorigin_elements = true.
Proof. vm_compute. reflexivity. Qed.
Lemma iframe_linkable : linkable (B"iframe") = true.
Proof. vm_compute. reflexivity. Qed.

Section AttrIdem.
  Variables M U R : Type.
  Variable I : interp M U R.
  Variable p : policy M U R.

  (* the style filter, applied to its own result, changes nothing (vacuous for elements without style rules);
     a statement about the declaration parser composed with the filter, see StyleIdem.v *)
  Definition style_stable (elem : bytes) : Prop :=
    has_style_policies I p elem = true ->
    forall v, sanitize_styles I p elem v <> [] ->
    sanitize_styles I p elem (sanitize_styles I p elem v) = sanitize_styles I p elem v.

  Lemma style_stable_none elem : has_style_policies I p elem = false -> style_stable elem.
  Proof. intros H H'. congruence. Qed.

  (* what the filtering loop keeps of an attribute, it keeps unchanged when it sees it again *)
  Lemma filter_attr_kept elem aps a b : style_stable elem ->
    In b (filter_attr I p elem aps (has_style_policies I p elem) a) ->
    filter_attr I p elem aps (has_style_policies I p elem) b = [b].
  Proof.
    intros Hst Hb. unfold filter_attr in Hb.
    destruct (allowDataAttributes p && is_data_attribute (akey a)) eqn:Ed.
    { destruct Hb as [<-|[]]. unfold filter_attr. rewrite Ed. reflexivity. }
    destruct (key_is (B"style") a && has_style_policies I p elem) eqn:Es.
    { apply andb_true_iff in Es as [Ek Eh].
      destruct (sanitize_styles I p elem (aval a)) as [|c0 v0] eqn:Ev; [contradiction|]. destruct Hb as [<-|[]].
      unfold filter_attr. cbn [akey aval fst snd]. change (fst a) with (akey a). rewrite Ed.
      change (key_is (B"style") (akey a, c0 :: v0)) with (key_is (B"style") a). rewrite Ek, Eh. cbn [andb].
      rewrite <- Ev, (Hst Eh (aval a)) by (rewrite Ev; discriminate). rewrite Ev. reflexivity. }
    destruct (rules_accept I aps a) eqn:E1.
    { destruct Hb as [<-|[]]. unfold filter_attr. rewrite Ed, Es, E1. reflexivity. }
    destruct (rules_accept I (globalAttrs p) a) eqn:E2; [|contradiction].
    destruct Hb as [<-|[]]. unfold filter_attr. rewrite Ed, Es, E1, E2. reflexivity.
  Qed.

  (* for an element the later passes do not touch, sanitizeAttrs is the filtering loop *)
  Lemma sanitize_attrs_plain elem attrs aps : linkable elem = false ->
    sanitize_attrs I p elem attrs aps = flat_map (filter_attr I p elem aps (has_style_policies I p elem)) attrs.
  Proof.
    intros Hl. unfold sanitize_attrs. destruct attrs as [|a0 ar]; [reflexivity|]. rewrite Hl.
    set (clean := flat_map _ (a0 :: ar)). destruct clean as [|c0 cl] eqn:Ec; [reflexivity|]. rewrite <- Ec.
    assert (Hc : mem elem crossorigin_elements = false).
    { destruct (mem elem crossorigin_elements) eqn:E; [|reflexivity]. apply mem_In in E.
      pose proof crossorigin_elements_linkable as T. rewrite forallb_forall in T. specialize (T _ E).
      unfold linkable in Hl. congruence. }
    assert (Hi : beqb elem (B"iframe") = false).
    { destruct (beqb elem (B"iframe")) eqn:E; [|reflexivity]. apply beqb_eq in E. subst elem.
      rewrite iframe_linkable in Hl. discriminate. }
    unfold crossorigin_pass. rewrite Hc, andb_false_r.
    unfold sandbox_pass. rewrite Hi. destruct (requireSandbox p); reflexivity.
  Qed.

  Theorem clean_attrs_idem_plain elem a aps : linkable elem = false -> style_stable elem ->
    clean_attrs I p elem (clean_attrs I p elem a aps) aps = clean_attrs I p elem a aps.
  Proof.
    intros Hl Hs.
    assert (E : forall l, clean_attrs I p elem l aps = flat_map (filter_attr I p elem aps (has_style_policies I p elem)) l).
    { intros l. unfold clean_attrs. destruct l; [reflexivity|]. apply sanitize_attrs_plain; assumption. }
    rewrite !E. apply flat_map_idem. intros x b Hb. apply (filter_attr_kept elem aps x b Hs Hb).
  Qed.
End AttrIdem.
Arguments clean_attrs_idem_plain {M U R} I p elem a aps.
