(* Idempotence of the attribute filter on its own output (the premise of
   PassThrough.sanitize_idempotent), first for elements none of whose attributes are rewritten. *)
From Coq Require Import List NArith Bool Lia.
Import ListNotations.
From BM Require Import Bytes Utf8 Strings Tokenizer Policy Url Style Attrs Loop GenTables.
Open Scope N_scope.

Lemma flat_map_idem {A} (f : A -> list A) :
  (forall a, f a = [a] \/ f a = []) -> forall l, flat_map f (flat_map f l) = flat_map f l.
Proof.
  intros Hf. induction l as [|a l IH]; cbn [flat_map]; [reflexivity|].
  rewrite flat_map_app, IH. destruct (Hf a) as [E|E]; rewrite E; cbn [flat_map app].
  - rewrite E. reflexivity.
  - reflexivity.
Qed.

Lemma crossorigin_elements_linkable : forallb (fun x => mem x linkable_elements) crossorigin_elements = true.
Proof. vm_compute. reflexivity. Qed.
Lemma iframe_linkable : linkable (B"iframe") = true.
Proof. vm_compute. reflexivity. Qed.

Section AttrIdem.
  Variables M U R : Type.
  Variable I : interp M U R.
  Variable p : policy M U R.

  Lemma filter_attr_cases elem aps a : has_style_policies I p elem = false ->
    filter_attr I p elem aps false a = [a] \/ filter_attr I p elem aps false a = [].
  Proof.
    intros _. unfold filter_attr. destruct (allowDataAttributes p && is_data_attribute (akey a)); [left; reflexivity|].
    rewrite andb_false_r. destruct (rules_accept I aps a); [left; reflexivity|].
    destruct (rules_accept I (globalAttrs p) a); [left | right]; reflexivity.
  Qed.

  (* for an element the later passes do not touch, sanitizeAttrs is the filtering loop *)
  Lemma sanitize_attrs_plain elem attrs aps : linkable elem = false -> has_style_policies I p elem = false ->
    sanitize_attrs I p elem attrs aps = flat_map (filter_attr I p elem aps false) attrs.
  Proof.
    intros Hl Hs. unfold sanitize_attrs. destruct attrs as [|a0 ar]; [reflexivity|]. rewrite Hs, Hl.
    set (clean := flat_map _ (a0 :: ar)). destruct clean as [|c0 cl] eqn:Ec; [reflexivity|]. rewrite <- Ec.
    assert (Hc : mem elem crossorigin_elements = false).
    { destruct (mem elem crossorigin_elements) eqn:E; [|reflexivity]. apply mem_In in E.
      pose proof crossorigin_elements_linkable as T. rewrite forallb_forall in T. specialize (T _ E).
      unfold linkable in Hl. congruence. }
    assert (Hi : beqb elem (B"iframe") = false).
    { destruct (beqb elem (B"iframe")) eqn:E; [|reflexivity]. apply beqb_eq in E. subst elem.
      rewrite iframe_linkable in Hl. discriminate. }
    unfold crossorigin_pass. rewrite Hc, andb_false_r.
    unfold sandbox_pass. rewrite Hi. destruct (requireSandbox p); reflexivity.
  Qed.

  Theorem clean_attrs_idem_plain elem a aps : linkable elem = false -> has_style_policies I p elem = false ->
    clean_attrs I p elem (clean_attrs I p elem a aps) aps = clean_attrs I p elem a aps.
  Proof.
    intros Hl Hs.
    assert (E : forall l, clean_attrs I p elem l aps = flat_map (filter_attr I p elem aps false) l).
    { intros l. unfold clean_attrs. destruct l; [reflexivity|]. apply sanitize_attrs_plain; assumption. }
    rewrite !E. apply flat_map_idem. intros x. apply filter_attr_cases. exact Hs.
  Qed.
End AttrIdem.
Arguments clean_attrs_idem_plain {M U R} I p elem a aps.
