(* Entry points: write-fault behaviour (C16) and agreement of the entry points (C15). *)
From Coq Require Import List NArith ZArith Bool Lia Arith.
Import ListNotations.
From BM Require Import Bytes Utf8 Strings Escape Tokenizer Policy Url Style Attrs Loop Entry LoopInv.
Open Scope N_scope.

Section EntryProofs.
  Variables M U R : Type.
  Variable I : interp M U R.
  Variable p : policy M U R.

  Definition all_checked (cs : list chunk) := Forall (fun c => checked c = true) cs.

  (* a sink that accepts the first k writes and rejects write k (whatever it does afterwards) *)
  Definition fails_first_at (w : sink) (i k : nat) := (forall j, (j < k)%nat -> w (i + j)%nat = true) /\ w (i + k)%nat = false.

  Lemma offer_fault : forall cs w i k, all_checked cs -> fails_first_at w i k -> (k < length cs)%nat ->
    offer w i cs = (map data (firstn k cs), S (i + k), true).
  Proof.
    induction cs as [|c cs IH]; intros w i k Hc [Hok Hf] Hk; [simpl in Hk; lia|].
    inversion Hc as [|? ? Hc1 Hc2]; subst. cbn [offer].
    destruct k as [|k].
    - rewrite Nat.add_0_r in Hf. rewrite Hf, Hc1. cbn. rewrite Nat.add_0_r. reflexivity.
    - assert (w i = true) as -> by (specialize (Hok O); rewrite Nat.add_0_r in Hok; apply Hok; lia).
      rewrite (IH w (S i) k); auto.
      + cbn. repeat f_equal. lia.
      + split.
        * intros j Hj. replace (S i + j)%nat with (i + S j)%nat by lia. apply Hok. lia.
        * replace (S i + k)%nat with (i + S k)%nat by lia. exact Hf.
      + simpl in Hk. lia.
  Qed.

  Lemma offer_ok : forall cs w i, (forall j, w j = true) -> offer w i cs = (map data cs, (i + length cs)%nat, false).
  Proof.
    induction cs as [|c cs IH]; intros w i Hw; cbn [offer].
    - cbn. rewrite Nat.add_0_r. reflexivity.
    - rewrite Hw, (IH w (S i) Hw). cbn. repeat f_equal. lia.
  Qed.

  Lemma firstn_concat_prefix : forall (l : list bytes) k, exists t, concat l = concat (firstn k l) ++ t.
  Proof.
    induction l as [|x l IH]; intros k.
    - exists []. destruct k; reflexivity.
    - destruct k; cbn.
      + eexists; reflexivity.
      + destruct (IH k) as [t Ht]. exists t. rewrite Ht, app_assoc. reflexivity.
  Qed.

  Definition chunks_of (s : bytes) : list chunk := fst (run I p (tokenize s)).

  (* C16, write side: the first failing write ends the run: the error is reported, exactly
     k+1 write calls were made (none after the failure), and what the destination accepted is
     the first k chunks, i.e. a prefix of the fault-free output *)
  Theorem write_failure : forall r w k, fails_first_at w 0 k -> (k < length (chunks_of (src_data r)))%nat ->
    sanitize_rw I p r w = (map data (firstn k (chunks_of (src_data r))), S k, ErrWrite).
  Proof.
    intros r w k Hw Hk. unfold sanitize_rw, chunks_of in *.
    pose proof (run_checked I p (tokenize (src_data r))) as Hc.
    destruct (run I p (tokenize (src_data r))) as [cs pn] eqn:E. cbn [fst] in *.
    rewrite (offer_fault cs w 0 k Hc Hw Hk). reflexivity.
  Qed.

  Theorem accepted_is_prefix : forall s k, exists t,
    sanitize_bytes I p s = concat (map data (firstn k (chunks_of s))) ++ t.
  Proof.
    intros s k. unfold sanitize_bytes, sanitize_tokens, chunks_of, emitted, run.
    destruct (run_items I p (tokenize s)) as [its pn]. cbn [fst].
    rewrite <- firstn_map, map_map. cbn [chunk_of wr data]. apply firstn_concat_prefix.
  Qed.

  (* without write faults: the outcome is decided by the source *)
  Theorem no_write_failure : forall r w, (forall j, w j = true) ->
    sanitize_rw I p r w = (map data (chunks_of (src_data r)), length (chunks_of (src_data r)),
                           if src_eof r then ErrNone else ErrRead).
  Proof.
    intros r w Hw. unfold sanitize_rw, chunks_of.
    pose proof (run_no_panic I p (tokenize (src_data r))) as Hp.
    destruct (run I p (tokenize (src_data r))) as [cs pn] eqn:E. cbn [fst snd] in *. subst pn.
    rewrite (offer_ok cs w 0 Hw). reflexivity.
  Qed.

  (* C16, read side *)
  Theorem read_failure_reported : forall r w, src_eof r = false -> (forall j, w j = true) ->
    snd (sanitize_rw I p r w) = ErrRead.
  Proof. intros r w Hr Hw. rewrite no_write_failure by assumption. rewrite Hr. reflexivity. Qed.

  Theorem read_failure_empty_buffer : forall r, src_eof r = false -> SanitizeReader I p r = [].
  Proof.
    intros r Hr. unfold SanitizeReader, sanitize_with_buff.
    rewrite no_write_failure by (intros; reflexivity). rewrite Hr. reflexivity.
  Qed.

  Lemma chunks_concat : forall s, concat (map data (chunks_of s)) = sanitize_bytes I p s.
  Proof.
    intros s. unfold chunks_of, sanitize_bytes, sanitize_tokens, emitted, run.
    destruct (run_items I p (tokenize s)) as [its pn]. cbn [fst]. rewrite map_map. reflexivity.
  Qed.

  (* C15: all entry points compute the same bytes *)
  Lemma sanitize_with_buff_eof : forall s, sanitize_with_buff I p {| src_data := s; src_eof := true |} = sanitize_bytes I p s.
  Proof.
    intros s. unfold sanitize_with_buff. rewrite no_write_failure by (intros; reflexivity). cbn [src_eof src_data].
    unfold chunks_of, sanitize_bytes, sanitize_tokens, emitted, run.
    destruct (run_items I p (tokenize s)) as [its pn]. cbn [fst]. rewrite map_map. reflexivity.
  Qed.

  Theorem entry_points_agree : forall s, is_blank s = false ->
    Sanitize I p s = sanitize_bytes I p s /\
    SanitizeBytes I p s = sanitize_bytes I p s /\
    SanitizeReader I p {| src_data := s; src_eof := true |} = sanitize_bytes I p s /\
    (forall w, (forall j, w j = true) ->
       sanitize_rw I p {| src_data := s; src_eof := true |} w = (map data (chunks_of s), length (chunks_of s), ErrNone)).
  Proof.
    intros s Hb. unfold Sanitize, SanitizeBytes, SanitizeReader. rewrite Hb.
    repeat split; try apply sanitize_with_buff_eof.
    intros w Hw. rewrite no_write_failure by assumption. reflexivity.
  Qed.

  Theorem blank_unchanged : forall s, is_blank s = true -> Sanitize I p s = s /\ SanitizeBytes I p s = s.
  Proof. intros s Hb. unfold Sanitize, SanitizeBytes. rewrite Hb. auto. Qed.
End EntryProofs.

Arguments chunks_of {M U R} I p s.
Arguments write_failure {M U R} I p r w k.
Arguments chunks_concat {M U R} I p s.
Arguments accepted_is_prefix {M U R} I p s k.
Arguments no_write_failure {M U R} I p r w.
Arguments read_failure_reported {M U R} I p r w.
Arguments read_failure_empty_buffer {M U R} I p r.
Arguments entry_points_agree {M U R} I p s.
Arguments blank_unchanged {M U R} I p s.
