(* recursiveCheck composes: if every sub-handler accepts only strings made of characters with some
   property (e.g. none of the six characters every hostile CSS value needs), then a value that
   recursiveCheck accepts consists of such characters only - every component was part of a group
   that some sub-handler accepted. *)
From Coq Require Import List NArith Bool Arith Lia.
Import ListNotations.
From BM Require Import Bytes Strings RecCheck RecCheckProofs.
Local Open Scope nat_scope.

Lemma nth_skipn' {A} (d : A) : forall a (l : list A) b, nth b (skipn a l) d = nth (a + b) l d.
Proof.
  induction a as [|a IH]; intros l b; [reflexivity|]. destruct l as [|x l]; [destruct b; reflexivity|]. cbn [skipn Nat.add nth]. apply IH.
Qed.

Section Safe.
  Variable ok : N -> bool.
  Definition clean (s : bytes) : Prop := Forall (fun c => ok c = true) s.

  Lemma clean_join l sep : clean (join l sep) -> Forall clean l.
  Proof.
    induction l as [|x l IH]; intros H; [constructor|].
    destruct l as [|y l'].
    - cbn [join] in H. constructor; [exact H | constructor].
    - change (join (x :: y :: l') sep) with (x ++ sep ++ join (y :: l') sep) in H.
      unfold clean in H. apply Forall_app in H as [Hx H]. apply Forall_app in H as [_ H].
      constructor; [exact Hx | apply IH; exact H].
  Qed.

  Lemma join_clean l sep : Forall clean l -> clean sep -> clean (join l sep).
  Proof.
    intros Hl Hs. induction l as [|x l IH]; [constructor|].
    inversion Hl as [|? ? Hx Hl']; subst. destruct l as [|y l'].
    - exact Hx.
    - change (join (x :: y :: l') sep) with (x ++ sep ++ join (y :: l') sep).
      unfold clean. apply Forall_app. split; [exact Hx|]. apply Forall_app. split; [exact Hs | apply IH; exact Hl'].
  Qed.

  Variable value : list bytes.
  Variable funcs : list (bytes -> bool).
  Hypothesis Hsub : forall j, In j funcs -> forall s, j s = true -> clean s.
  Let n := length value.

  Lemma group_clean start i k : clean (tempval value start i) -> start <= k -> k <= i -> k < n -> clean (nth k value []).
  Proof.
    intros H Hs Hk Hn. unfold tempval in H. apply clean_join in H. rewrite Forall_forall in H. apply H.
    replace k with (start + (k - start)) by lia. rewrite <- nth_skipn'.
    rewrite <- (firstn_skipn (i + 1 - start) (skipn start value)) at 1.
    assert (Hl : k - start < length (firstn (i + 1 - start) (skipn start value))).
    { rewrite firstn_length, skipn_length. fold n. lia. }
    rewrite app_nth1 by exact Hl. apply nth_In. exact Hl.
  Qed.

  Lemma good_clean_aux : forall m start, n - start <= m -> good value funcs start ->
    forall k, start <= k -> k < n -> clean (nth k value []).
  Proof.
    induction m as [|m IH]; intros start Hm Hg k Hk Hn; [lia|].
    inversion Hg as [s i j Hs Hi Hj Hacc Hrest]; subst.
    destruct (le_lt_dec k i) as [Hle|Hgt].
    - apply (group_clean start i k); auto. apply (Hsub j Hj). exact Hacc.
    - destruct Hrest as [E|G]; [fold n in E; lia|]. apply (IH (i + 1)); [fold n in Hi; lia | exact G | lia | exact Hn].
  Qed.
  Lemma good_clean start : good value funcs start -> forall k, start <= k -> k < n -> clean (nth k value []).
  Proof. apply (good_clean_aux (n - start)). apply le_n. Qed.

  Theorem recursive_check_clean : recursive_check value funcs = true -> Forall clean value.
  Proof.
    intros H. apply recursive_check_correct in H. apply Forall_forall. intros c Hc.
    apply In_nth with (d := []) in Hc as (k & Hk & <-). apply (good_clean 0 H k); [lia | exact Hk].
  Qed.

  (* hence the value the components were split from, when the separator is harmless *)
  Corollary recursive_check_joined_clean sep : clean sep -> recursive_check value funcs = true -> clean (join value sep).
  Proof. intros Hs H. apply join_clean; [apply recursive_check_clean; exact H | exact Hs]. Qed.
End Safe.
