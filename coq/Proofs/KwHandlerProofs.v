(* a keyword handler accepts only values whose marked bytes all come from its keywords *)
From Coq Require Import List NArith Bool.
Import ListNotations.
From BM Require Import Bytes Utf8 GenUnicode Strings Regex KwHandler DangerBytes.
From Coq Require String.
Open Scope N_scope.

Section Kw.
  Variable mk : N -> bool.
  Hypothesis mk_ascii : forall c, mk c = true -> c < 128.
  Hypothesis mk_not_upper : forall c, mk c = true -> is_upper c = false.
  Hypothesis mk_not_lower : forall c, is_lower c = true -> mk c = false.
  Hypothesis mk_table : forallb (fun pr => negb (mk (snd pr))) lower_pairs = true.
  Hypothesis mk_space : forall r, is_space_rune r = true -> mk r = false.
  Hypothesis mk_comma : mk 44 = false.

  Lemma concat_nil {A} (l : list (list A)) : (forall x, In x l -> x = []) -> concat l = [].
  Proof. induction l as [|x l IH]; intros H; [reflexivity|]. cbn [concat]. rewrite (H x (or_introl eq_refl)), IH; [reflexivity|]. intros y Hy. apply H. right. exact Hy. Qed.

  Theorem kw_handler_marked kw v : (forall k, In k kw -> D mk k = []) -> kw_handler kw v = true -> D mk v = [].
  Proof.
    intros Hkw H. assert (HS : concat (map (D mk) (split v [44])) = D mk v) by (apply D_split; assumption).
    rewrite <- HS. apply concat_nil. intros x Hx.
    apply in_map_iff in Hx as (part & <- & Hpart).
    unfold kw_handler, in_list, split_values in H. rewrite forallb_forall in H.
    assert (Hin : In (to_lower (trim_space part)) (map (fun x => to_lower (trim_space x)) (split v [44]))) by (apply (in_map (fun x => to_lower (trim_space x))); exact Hpart).
    specialize (H _ Hin). apply mem_In in H. specialize (Hkw _ H).
    assert (HL : D mk (to_lower (trim_space part)) = D mk (trim_space part)) by (apply D_to_lower; assumption).
    assert (HT : D mk (trim_space part) = D mk part) by (apply D_trim_space; assumption).
    rewrite <- HT, <- HL. exact Hkw.
  Qed.

  Hypothesis mk_blank : mk 32 = false.
  Theorem in_space_marked kw v : (forall k, In k kw -> D mk k = []) -> in_list (split v [32]) kw = true -> D mk v = [].
  Proof.
    intros Hkw H. assert (HS : concat (map (D mk) (split v [32])) = D mk v) by (apply D_split; assumption).
    rewrite <- HS. apply concat_nil. intros x Hx. apply in_map_iff in Hx as (part & <- & Hpart).
    unfold in_list in H. rewrite forallb_forall in H. specialize (H _ Hpart). apply mem_In in H. exact (Hkw _ H).
  Qed.
End Kw.

(* ---- an environment of handlers that accept only values with some property ---- *)
Section Env.
  Variable acceptors : list (String.string * re).
  Variable P : bytes -> Prop.
  Definition cond_ok (c : hcond) : Prop :=
    match c with
    | CRx nm => forall v, acceptor acceptors nm v = true -> P v
    | CCall _ => True
    | CIn kw => forall v, kw_handler kw v = true -> P v
    | CInSpace kw => forall v, in_list (split v [32]) kw = true -> P v
    end.
  Definition env_ok (env : henv) : Prop := forall e, In e env -> forall v, snd e v = true -> P v.

  Lemma eval_def_ok env d : env_ok env -> Forall cond_ok d -> forall v, eval_def acceptors env d v = true -> P v.
  Proof.
    intros He Hd v H. unfold eval_def in H. apply existsb_exists in H as (c & Hc & Hv).
    rewrite Forall_forall in Hd. specialize (Hd c Hc). destruct c as [nm|fn|kw|kw]; cbn [eval_cond cond_ok] in *.
    - exact (Hd v Hv).
    - unfold call_env in Hv. destruct (find _ env) as [e|] eqn:Ef; [|discriminate]. apply find_some in Ef as [Ein _]. exact (He e Ein v Hv).
    - exact (Hd v Hv).
    - exact (Hd v Hv).
  Qed.

  Theorem build_handlers_ok : forall defs env, env_ok env -> Forall (fun nd => Forall cond_ok (snd nd)) defs ->
    env_ok (build_handlers acceptors defs env).
  Proof.
    induction defs as [|[n d] defs IH]; intros env He Hd; cbn [build_handlers]; [exact He|].
    inversion Hd as [|? ? Hd1 Hd2]; subst. cbn [snd] in Hd1. apply IH; [|exact Hd2].
    intros e Hin v Hv. apply in_app_or in Hin as [Hin|[<-|[]]]; [exact (He e Hin v Hv)|].
    cbn [snd] in Hv. exact (eval_def_ok env d He Hd1 v Hv).
  Qed.
End Env.
