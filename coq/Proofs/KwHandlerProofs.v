(* a keyword handler accepts only values whose marked bytes all come from its keywords *)
From Coq Require Import List NArith Bool.
Import ListNotations.
From BM Require Import Bytes Utf8 GenUnicode Strings Regex KwHandler DangerBytes.
Open Scope N_scope.

Section Kw.
  Variable mk : N -> bool.
  Hypothesis mk_ascii : forall c, mk c = true -> c < 128.
  Hypothesis mk_not_upper : forall c, mk c = true -> is_upper c = false.
  Hypothesis mk_not_lower : forall c, is_lower c = true -> mk c = false.
  Hypothesis mk_table : forallb (fun pr => negb (mk (snd pr))) lower_pairs = true.
  Hypothesis mk_space : forall r, is_space_rune r = true -> mk r = false.
  Hypothesis mk_comma : mk 44 = false.

  Lemma concat_nil {A} (l : list (list A)) : (forall x, In x l -> x = []) -> concat l = [].
  Proof. induction l as [|x l IH]; intros H; [reflexivity|]. cbn [concat]. rewrite (H x (or_introl eq_refl)), IH; [reflexivity|]. intros y Hy. apply H. right. exact Hy. Qed.

  Theorem kw_handler_marked kw v : (forall k, In k kw -> D mk k = []) -> kw_handler kw v = true -> D mk v = [].
  Proof.
    intros Hkw H. assert (HS : concat (map (D mk) (split v [44])) = D mk v) by (apply D_split; assumption).
    rewrite <- HS. apply concat_nil. intros x Hx.
    apply in_map_iff in Hx as (part & <- & Hpart).
    unfold kw_handler, in_list, split_values in H. rewrite forallb_forall in H.
    assert (Hin : In (to_lower (trim_space part)) (map (fun x => to_lower (trim_space x)) (split v [44]))) by (apply (in_map (fun x => to_lower (trim_space x))); exact Hpart).
    specialize (H _ Hin). apply mem_In in H. specialize (Hkw _ H).
    assert (HL : D mk (to_lower (trim_space part)) = D mk (trim_space part)) by (apply D_to_lower; assumption).
    assert (HT : D mk (trim_space part) = D mk part) by (apply D_trim_space; assumption).
    rewrite <- HT, <- HL. exact Hkw.
  Qed.
End Kw.
