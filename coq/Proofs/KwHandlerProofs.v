(* a keyword handler accepts only values whose marked bytes all come from its keywords *)
From Coq Require Import List NArith Bool.
Import ListNotations.
From BM Require Import Bytes Utf8 GenUnicode Strings Regex RecCheck RecCheckProofs RecCheckSafe KwHandler DangerBytes.
From Coq Require String.
Open Scope N_scope.

Section Kw.
  Variable mk : N -> bool.
  Hypothesis mk_ascii : forall c, mk c = true -> c < 128.
  Hypothesis mk_not_upper : forall c, mk c = true -> is_upper c = false.
  Hypothesis mk_not_lower : forall c, is_lower c = true -> mk c = false.
  Hypothesis mk_table : forallb (fun pr => negb (mk (snd pr))) lower_pairs = true.
  Hypothesis mk_space : forall r, is_space_rune r = true -> mk r = false.
  Hypothesis mk_comma : mk 44 = false.

  Lemma concat_nil {A} (l : list (list A)) : (forall x, In x l -> x = []) -> concat l = [].
  Proof. induction l as [|x l IH]; intros H; [reflexivity|]. cbn [concat]. rewrite (H x (or_introl eq_refl)), IH; [reflexivity|]. intros y Hy. apply H. right. exact Hy. Qed.

  Theorem kw_handler_marked kw v : (forall k, In k kw -> D mk k = []) -> kw_handler kw v = true -> D mk v = [].
  Proof.
    intros Hkw H. assert (HS : concat (map (D mk) (split v [44])) = D mk v) by (apply D_split; assumption).
    rewrite <- HS. apply concat_nil. intros x Hx.
    apply in_map_iff in Hx as (part & <- & Hpart).
    unfold kw_handler, in_list, split_values in H. rewrite forallb_forall in H.
    assert (Hin : In (to_lower (trim_space part)) (map (fun x => to_lower (trim_space x)) (split v [44]))) by (apply (in_map (fun x => to_lower (trim_space x))); exact Hpart).
    specialize (H _ Hin). apply mem_In in H. specialize (Hkw _ H).
    assert (HL : D mk (to_lower (trim_space part)) = D mk (trim_space part)) by (apply D_to_lower; assumption).
    assert (HT : D mk (trim_space part) = D mk part) by (apply D_trim_space; assumption).
    rewrite <- HT, <- HL. exact Hkw.
  Qed.

  Theorem in_sep_marked sep kw v : mk sep = false -> (forall k, In k kw -> D mk k = []) -> in_list (split v [sep]) kw = true -> D mk v = [].
  Proof.
    intros Hsep Hkw H. assert (HS : concat (map (D mk) (split v [sep])) = D mk v) by (apply D_split; assumption).
    rewrite <- HS. apply concat_nil. intros x Hx. apply in_map_iff in Hx as (part & <- & Hpart).
    unfold in_list in H. rewrite forallb_forall in H. specialize (H _ Hpart). apply mem_In in H. exact (Hkw _ H).
  Qed.

  Hypothesis mk_blank : mk 32 = false.
  Theorem in_space_marked kw v : (forall k, In k kw -> D mk k = []) -> in_list (split v [32]) kw = true -> D mk v = [].
  Proof.
    intros Hkw H. assert (HS : concat (map (D mk) (split v [32])) = D mk v) by (apply D_split; assumption).
    rewrite <- HS. apply concat_nil. intros x Hx. apply in_map_iff in Hx as (part & <- & Hpart).
    unfold in_list in H. rewrite forallb_forall in H. specialize (H _ Hpart). apply mem_In in H. exact (Hkw _ H).
  Qed.
End Kw.

(* ---- an environment of handlers that accept only values with some property ---- *)
Section Env.
  Variable acceptors : list (String.string * re).
  Variable P : bytes -> Prop.
  Definition cond_ok (c : hcond) : Prop :=
    match c with
    | CRx nm => forall v, acceptor acceptors nm v = true -> P v
    | CCall _ => True
    | CIn kw => forall v, kw_handler kw v = true -> P v
    | CInSpace kw => forall v, in_list (split v [32]) kw = true -> P v
    | CExact kw => forall v, mem v kw = true -> P v
    | CRec _ _ _ => False
    | CInSep sep kw => forall v, in_list (split v [sep]) kw = true -> P v
    end.
  Definition env_ok (env : henv) : Prop := forall e, In e env -> forall v, snd e v = true -> P v.

  Lemma eval_def_ok env d : env_ok env -> Forall cond_ok d -> forall v, eval_def acceptors env d v = true -> P v.
  Proof.
    intros He Hd v H. unfold eval_def in H. apply existsb_exists in H as (c & Hc & Hv).
    rewrite Forall_forall in Hd. specialize (Hd c Hc). destruct c as [nm|fn|kw|kw|kw|sep mx fns|sep kw]; cbn [eval_cond cond_ok] in *.
    - exact (Hd v Hv).
    - unfold call_env in Hv. destruct (find _ env) as [e|] eqn:Ef; [|discriminate]. apply find_some in Ef as [Ein _]. exact (He e Ein v Hv).
    - exact (Hd v Hv).
    - exact (Hd v Hv).
    - exact (Hd v Hv).
    - contradiction.
    - exact (Hd v Hv).
  Qed.

  Theorem build_handlers_ok : forall defs env, env_ok env -> Forall (fun nd => Forall cond_ok (snd nd)) defs ->
    env_ok (build_handlers acceptors defs env).
  Proof.
    induction defs as [|[n d] defs IH]; intros env He Hd; cbn [build_handlers]; [exact He|].
    inversion Hd as [|? ? Hd1 Hd2]; subst. cbn [snd] in Hd1. apply IH; [|exact Hd2].
    intros e Hin v Hv. apply in_app_or in Hin as [Hin|[<-|[]]]; [exact (He e Hin v Hv)|].
    cbn [snd] in Hv. exact (eval_def_ok env d He Hd1 v Hv).
  Qed.
End Env.

(* ---- two levels: every handler accepts only values with property P; the handlers flagged clean accept only values without
   a marked character, which is what recursiveCheck needs of its sub-handlers ---- *)
Section Env2.
  Variable acceptors : list (String.string * re).
  Variable mk : N -> bool.
  Hypothesis mk_ascii : forall c, mk c = true -> c < 128.
  Hypothesis mk_not_upper : forall c, mk c = true -> is_upper c = false.
  Hypothesis mk_not_lower : forall c, is_lower c = true -> mk c = false.
  Hypothesis mk_table : forallb (fun pr => negb (mk (snd pr))) lower_pairs = true.
  Hypothesis mk_space : forall r, is_space_rune r = true -> mk r = false.
  Hypothesis mk_comma : mk 44 = false.
  Hypothesis mk_blank : mk 32 = false.

  Definition Cl (v : bytes) : Prop := D mk v = [].
  Variable P : bytes -> Prop.
  Hypothesis Cl_P : forall v, Cl v -> P v.
  Variable rxclean : list String.string.
  Hypothesis rx_P : forall nm v, acceptor acceptors nm v = true -> P v.
  Hypothesis rx_Cl : forall nm, existsb (String.eqb nm) rxclean = true -> forall v, acceptor acceptors nm v = true -> Cl v.

  (* the data of a condition is harmless: keywords without marked characters, an unmarked separator *)
  Definition cond_data_ok (c : hcond) : Prop :=
    match c with
    | CIn kw | CInSpace kw | CExact kw => forall k, In k kw -> D mk k = []
    | CRec sep _ _ => mk sep = false
    | CInSep sep kw => mk sep = false /\ forall k, In k kw -> D mk k = []
    | _ => True
    end.

  Definition inv (env : henv) (clset : list String.string) : Prop :=
    (forall e, In e env -> forall v, snd e v = true -> P v) /\
    (forall e, In e env -> existsb (String.eqb (fst e)) clset = true -> forall v, snd e v = true -> Cl v).

  Lemma D_nil_clean v : D mk v = [] -> clean (fun c => negb (mk c)) v.
  Proof.
    induction v as [|c v IH]; intros H; [constructor|]. unfold D in H. cbn [filter] in H. fold (D mk v) in H.
    destruct (mk c) eqn:E; [discriminate|]. constructor; [rewrite E; reflexivity | apply IH; exact H].
  Qed.
  Lemma clean_D_nil v : clean (fun c => negb (mk c)) v -> D mk v = [].
  Proof.
    induction 1 as [|c v Hc Hv IH]; [reflexivity|]. unfold D. cbn [filter]. apply negb_true_iff in Hc. rewrite Hc. exact IH.
  Qed.

  Lemma call_clean env clset fn v : inv env clset -> existsb (String.eqb fn) clset = true -> call_env env fn v = true -> Cl v.
  Proof.
    intros [_ I2] Hfn H. unfold call_env in H. destruct (find (fun e => String.eqb (fst e) fn) env) as [e|] eqn:Ef; [|discriminate].
    apply find_some in Ef as [Ein Eeq]. apply String.eqb_eq in Eeq. apply (I2 e Ein); [rewrite Eeq; exact Hfn | exact H].
  Qed.

  Lemma rec_Cl env clset sep mx fns v : inv env clset -> mk sep = false ->
    forallb (fun fn => existsb (String.eqb fn) clset) fns = true ->
    eval_cond acceptors env (CRec sep mx fns) v = true -> Cl v.
  Proof.
    intros Hinv Hsep Hfns H. cbn [eval_cond] in H. apply andb_true_iff in H as [_ H].
    assert (Hparts : Forall (clean (fun c => negb (mk c))) (split v [sep])).
    { apply (recursive_check_clean (fun c => negb (mk c)) (split v [sep]) (map (call_env env) fns)); [|exact H].
      intros j Hj s Hs. apply in_map_iff in Hj as (fn & <- & Hfn). rewrite forallb_forall in Hfns.
      apply D_nil_clean. exact (call_clean env clset fn s Hinv (Hfns fn Hfn) Hs). }
    unfold Cl. assert (HS : concat (map (D mk) (split v [sep])) = D mk v) by (apply D_split; assumption).
    rewrite <- HS. apply concat_nil. intros x Hx. apply in_map_iff in Hx as (part & <- & Hpart).
    rewrite Forall_forall in Hparts. apply clean_D_nil. exact (Hparts part Hpart).
  Qed.

  Lemma data_Cl c v : cond_data_ok c ->
    match c with
    | CIn kw => kw_handler kw v = true -> Cl v
    | CInSpace kw => in_list (split v [32]) kw = true -> Cl v
    | CExact kw => mem v kw = true -> Cl v
    | CInSep sep kw => in_list (split v [sep]) kw = true -> Cl v
    | _ => True
    end.
  Proof.
    destruct c as [nm|fn|kw|kw|kw|sep mx fns|sep kw]; cbn [cond_data_ok]; intros Hd; try exact Logic.I.
    - intros H. apply (kw_handler_marked mk) with (kw := kw); assumption.
    - intros H. apply (in_space_marked mk) with (kw := kw); assumption.
    - intros H. apply mem_In in H. exact (Hd v H).
    - intros H. destruct Hd as [Hsep Hkw]. apply (in_sep_marked mk) with (sep := sep) (kw := kw); assumption.
  Qed.

  Lemma cond_P env kept clset c v : inv env clset -> cond_data_ok c -> cond_admissible kept clset c = true ->
    eval_cond acceptors env c v = true -> P v.
  Proof.
    intros Hinv Hd Ha H. pose proof (data_Cl c v Hd) as HD.
    destruct c as [nm|fn|kw|kw|kw|sep mx fns|sep kw]; cbn [eval_cond] in H.
    - exact (rx_P nm v H).
    - unfold call_env in H. destruct (find _ env) as [e|] eqn:Ef; [|discriminate]. apply find_some in Ef as [Ein _].
      exact (proj1 Hinv e Ein v H).
    - apply Cl_P. exact (HD H).
    - apply Cl_P. exact (HD H).
    - apply Cl_P. exact (HD H).
    - apply Cl_P. cbn [cond_admissible] in Ha. cbn [cond_data_ok] in Hd. exact (rec_Cl env clset sep mx fns v Hinv Hd Ha H).
    - apply Cl_P. exact (HD H).
  Qed.

  Lemma cond_Cl env clset c v : inv env clset -> cond_data_ok c -> cond_clean rxclean clset c = true ->
    eval_cond acceptors env c v = true -> Cl v.
  Proof.
    intros Hinv Hd Hc H. pose proof (data_Cl c v Hd) as HD.
    destruct c as [nm|fn|kw|kw|kw|sep mx fns|sep kw]; cbn [eval_cond] in H; cbn [cond_clean] in Hc.
    - exact (rx_Cl nm Hc v H).
    - exact (call_clean env clset fn v Hinv Hc H).
    - exact (HD H).
    - exact (HD H).
    - exact (HD H).
    - cbn [cond_data_ok] in Hd. exact (rec_Cl env clset sep mx fns v Hinv Hd Hc H).
    - exact (HD H).
  Qed.

  Theorem keep_defs_inv : forall defs kept clset env,
    inv env clset -> (forall x, existsb (String.eqb x) clset = true -> existsb (String.eqb x) kept = true) ->
    (forall e, In e env -> existsb (String.eqb (fst e)) kept = true) ->
    Forall (fun nd => Forall cond_data_ok (snd nd)) defs ->
    inv (build_handlers acceptors (fst (keep_defs rxclean defs kept clset)) env) (snd (keep_defs rxclean defs kept clset)).
  Proof.
    induction defs as [|[n d] defs IH]; intros kept clset env Hinv Hsub Hnames Hdata; cbn [keep_defs]; [exact Hinv|].
    inversion Hdata as [|? ? Hd Hrest]; subst. cbn [snd] in Hd.
    destruct (forallb (cond_admissible kept clset) d && negb (existsb (String.eqb n) kept)) eqn:Eadm; [|apply IH; assumption].
    apply andb_true_iff in Eadm as [Ead Enew]. apply negb_true_iff in Enew.
    set (clset' := if forallb (cond_clean rxclean clset) d then n :: clset else clset).
    destruct (keep_defs rxclean defs (n :: kept) clset') as [l cs] eqn:Eq. cbn [fst snd build_handlers].
    specialize (IH (n :: kept) clset' (env ++ [(n, eval_def acceptors env d)])). rewrite Eq in IH. cbn [fst snd] in IH. apply IH; [| | |exact Hrest].
    - (* the extended environment *)
      assert (HP : forall v, eval_def acceptors env d v = true -> P v).
      { intros v Hv. unfold eval_def in Hv. apply existsb_exists in Hv as (c & Hc & Hcv).
        rewrite forallb_forall in Ead. rewrite Forall_forall in Hd. exact (cond_P env kept clset c v Hinv (Hd c Hc) (Ead c Hc) Hcv). }
      split.
      + intros e Hin v Hv. apply in_app_or in Hin as [Hin|[<-|[]]]; [exact (proj1 Hinv e Hin v Hv) | exact (HP v Hv)].
      + intros e Hin Hcl v Hv. apply in_app_or in Hin as [Hin|[<-|[]]].
        * (* an earlier entry: its name is not n, so it was flagged before *)
          apply (proj2 Hinv e Hin); [|exact Hv]. subst clset'. destruct (forallb (cond_clean rxclean clset) d); [|exact Hcl].
          cbn [existsb] in Hcl. apply orb_true_iff in Hcl as [Hcl|Hcl]; [|exact Hcl]. exfalso.
          apply String.eqb_eq in Hcl. pose proof (Hnames e Hin) as Hk. rewrite Hcl in Hk. congruence.
        * cbn [fst snd] in *. subst clset'. destruct (forallb (cond_clean rxclean clset) d) eqn:Ecl.
          -- unfold eval_def in Hv. apply existsb_exists in Hv as (c & Hc & Hcv).
             rewrite forallb_forall in Ecl. rewrite Forall_forall in Hd. exact (cond_Cl env clset c v Hinv (Hd c Hc) (Ecl c Hc) Hcv).
          -- exfalso. specialize (Hsub n Hcl). congruence.
    - intros x Hx. subst clset'. cbn [existsb]. destruct (forallb (cond_clean rxclean clset) d).
      + cbn [existsb] in Hx. apply orb_true_iff in Hx as [Hx|Hx]; [rewrite Hx; reflexivity | rewrite (Hsub x Hx); apply orb_true_r].
      + rewrite (Hsub x Hx). apply orb_true_r.
    - intros e Hin. cbn [existsb]. apply in_app_or in Hin as [Hin|[<-|[]]]; [rewrite (Hnames e Hin); apply orb_true_r|].
      cbn [fst]. rewrite String.eqb_refl. reflexivity.
  Qed.
End Env2.
