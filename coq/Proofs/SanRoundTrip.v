(* The output of the sanitizer, re-read by the tokenizer, is the list of items the loop emitted
   (adjacent texts merged): for every input and every policy that does not AllowUnsafe and allows
   no raw-text element (comments may be kept).  This lifts the item-level theorems of LoopProps
   to the bytes of the output as a parser reads them. *)
From Coq Require Import List NArith ZArith Bool Lia.
Import ListNotations.
From BM Require Import Bytes Utf8 Strings Escape Tokenizer Policy Url Style Attrs Loop LoopInv LoopProps
  RoundTrip Retokenize TokenizerWf AttrKeys.
Open Scope N_scope.

Lemma key_ok_rel : key_ok (B"rel").
Proof. split; [eexists _, _; repeat split; [discriminate|discriminate|]|]; repeat constructor. Qed.
Lemma key_ok_target : key_ok (B"target").
Proof. split; [eexists _, _; repeat split; [discriminate|discriminate|]|]; repeat constructor. Qed.
Lemma key_ok_crossorigin : key_ok (B"crossorigin").
Proof. split; [eexists _, _; repeat split; [discriminate|discriminate|]|]; repeat constructor. Qed.
Lemma key_ok_sandbox : key_ok (B"sandbox").
Proof. split; [eexists _, _; repeat split; [discriminate|discriminate|]|]; repeat constructor. Qed.

Section SanRoundTrip.
  Variables M U R : Type.
  Variable I : interp M U R.
  Variable p : policy M U R.

  (* the class of policies: nothing that makes the output contain raw text *)
  Definition plain_policy : Prop :=
    allowUnsafe p = false /\
    forall n, is_raw_name n = true -> elem_allowed I p n = false.

  Hypothesis Hplain : plain_policy.

  Lemma clean_attrs_keys n a aps : Forall (fun kv => key_ok (fst kv)) a ->
    Forall (fun kv => key_ok (fst kv)) (clean_attrs I p n a aps).
  Proof.
    intros Ha. unfold clean_attrs. destruct a as [|a0 a']; [constructor|].
    apply (sanitize_attrs_keys M U R I p key_ok key_ok_rel key_ok_target key_ok_crossorigin key_ok_sandbox). exact Ha.
  Qed.

  Lemma not_raw_of_policies n aps : element_policies I p n = Some aps -> is_raw_name n = false.
  Proof.
    intros E. destruct (is_raw_name n) eqn:Er; auto.
    destruct Hplain as (_ & Hr). specialize (Hr n Er).
    rewrite element_policies_allowed, E in Hr. discriminate.
  Qed.

  Lemma space_ok : Forall item_ok (space_if_adding p).
  Proof. unfold space_if_adding. destruct (addSpaces p); [constructor; [exact Logic.I | constructor] | constructor]. Qed.

  Lemma single_ok c (b : bool) : item_ok c -> Forall item_ok (if b then [] else [c]).
  Proof. intros Hc. destruct b; [constructor | constructor; [exact Hc | constructor]]. Qed.

  Lemma kept_start_ok st n c st' out : item_ok c -> kept_start st n c = Ok st' out -> Forall item_ok out.
  Proof.
    intros Hc. unfold kept_start.
    assert (Ho : Forall item_ok (if skip st then [] else [c])) by (apply single_ok; exact Hc).
    destruct (skipClosing st && negb (is_void n)).
    - destruct (stack st) as [|[top k] rest]; [discriminate|]. destruct (beqb top n); intros H; inversion H; subst; exact Ho.
    - intros H; inversion H; subst; exact Ho.
  Qed.

  Lemma end_tail_ok st n st' out : name_ok n -> end_tail I p st n = Ok st' out -> Forall item_ok out.
  Proof.
    intros Hn. unfold end_tail. destruct (lookup n (elsAndAttrs p)).
    - intros H; inversion H; subst. apply single_ok. exact Hn.
    - match goal with |- context [if ?c then (_, _) else (_, _)] => destruct c end;
        match goal with |- context [existsb ?f ?l] => destruct (existsb f l) end;
        intros H; inversion H; subst; try apply space_ok;
        apply single_ok; exact Hn.
  Qed.

  Lemma step_items_ok st t st' out : token_wf t -> step I p st t = Ok st' out -> Forall item_ok out.
  Proof.
    destruct Hplain as (Hu & Hr).
    intros Hwf. destruct t as [d|n a|n|n a|d|d]; cbn [step].
    - (* text *)
      destruct (skip st); [intros H; inversion H; constructor|].
      destruct (beqb (recent st) script_name || beqb (recent st) style_name); intros H; inversion H; subst.
      + rewrite Hu. constructor.
      + constructor; [exact Logic.I | constructor].
    - (* start *)
      destruct Hwf as [Hn Ha].
      destruct (is_script_or_style n && negb (allowUnsafe p)); [intros H; inversion H; constructor|].
      destruct (element_policies I p n) as [aps|] eqn:E.
      + match goal with |- context [if ?c then _ else _] => destruct c end.
        * intros H; inversion H; subst. apply space_ok.
        * apply kept_start_ok. cbn [item_ok]. split; [exact Hn|]. split; [apply clean_attrs_keys; exact Ha | eapply not_raw_of_policies; eauto].
      + intros H; inversion H; subst. apply space_ok.
    - (* end *)
      cbn [token_wf] in Hwf.
      match goal with |- context [is_script_or_style n && ?x] => destruct (is_script_or_style n && x) end; [intros H; inversion H; constructor|].
      match goal with |- context [skipClosing ?s] => set (st1 := s) end.
      destruct (skipClosing st1).
      + destruct (stack st1) as [|[top k] rest]; [discriminate|].
        destruct (beqb top n); [destruct k|]; try (apply end_tail_ok; exact Hwf).
        intros H; inversion H; subst. apply space_ok.
      + apply end_tail_ok; exact Hwf.
    - (* self-closing *)
      destruct Hwf as [Hn Ha].
      destruct (is_script_or_style n && negb (allowUnsafe p)); [intros H; inversion H; constructor|].
      destruct (element_policies I p n) as [aps|] eqn:E; [|intros H; inversion H; subst; apply space_ok].
      assert (Hit : item_ok (ITag (TSelf n (clean_attrs I p n a aps)))).
      { cbn [item_ok]. split; [exact Hn|]. split; [apply clean_attrs_keys; exact Ha | eapply not_raw_of_policies; eauto]. }
      destruct (clean_attrs I p n a aps) as [|c0 cl] eqn:Ec.
      * destruct (negb (allow_no_attrs I p n)); intros H; inversion H; subst; [apply space_ok|].
        apply single_ok; exact Hit.
      * intros H; inversion H; subst. apply single_ok; exact Hit.
    - (* comment *)
      destruct (allowComments p && negb (skip st)); intros H; inversion H; [constructor; [exact Logic.I | constructor] | constructor].
    - (* doctype *)
      intros H; inversion H; constructor.
  Qed.

  Lemma run_from_items_ok : forall ts st, Forall token_wf ts -> Forall item_ok (fst (run_from I p st ts)).
  Proof.
    induction ts as [|t ts IH]; intros st Hts; cbn [run_from]; [constructor|].
    inversion Hts as [|? ? Ht Hrest]; subst.
    destruct (step I p st t) as [st' out|] eqn:E; [|constructor].
    specialize (IH st' Hrest). destruct (run_from I p st' ts) as [rest pn]. cbn [fst] in *.
    apply Forall_app. split; [eapply step_items_ok; eauto | exact IH].
  Qed.

  Theorem emitted_items_ok s : Forall item_ok (emitted I p (tokenize s)).
  Proof. unfold emitted, run_items. apply run_from_items_ok, tokenize_wf. Qed.

  (* the sanitized bytes, tokenized again, are exactly the emitted items *)
  Theorem retokenize_sanitize s :
    tokenize (sanitize_bytes I p s) = coalesce (emitted I p (tokenize s)) [].
  Proof. unfold sanitize_bytes, sanitize_tokens. apply tokenize_rendered_items, emitted_items_ok. Qed.
End SanRoundTrip.
Arguments plain_policy {M U R} I p.
Arguments emitted_items_ok {M U R} I p Hplain s.
Arguments retokenize_sanitize {M U R} I p Hplain s.
Arguments clean_attrs_keys {M U R} I p n a aps.
