(* Idempotence of sanitizeAttrs for link / URL elements whose FORCED attributes (rel, target,
   crossorigin, sandbox) the policy does not itself allow on the element: the second pass drops the
   forced attributes, finds the rest unchanged and forces the same attributes again.  (When the
   policy allows some but not all of them the statement is false: finding F15.) *)
From Coq Require Import List NArith Bool Lia.
Import ListNotations.
From BM Require Import Bytes Utf8 Strings Tokenizer Policy Url Style Attrs Loop GenTables AttrProvenance AttrIdem.
Open Scope N_scope.

Definition nonforced (a : attr) : bool := negb (forced_key (akey a)).
Lemma attr_eta0 (a : attr) : (akey a, aval a) = a.
Proof. destruct a; reflexivity. Qed.

Lemma nf_map (f : attr -> attr) l :
  (forall a, nonforced a = true -> f a = a) -> (forall a, nonforced a = false -> nonforced (f a) = false) ->
  filter nonforced (map f l) = filter nonforced l.
Proof.
  intros H1 H2. induction l as [|a l IH]; cbn [map filter]; [reflexivity|].
  destruct (nonforced a) eqn:E.
  - rewrite (H1 a E), E, IH. reflexivity.
  - rewrite (H2 a E), IH. reflexivity.
Qed.

Lemma nf_app_forced l k v : forced_key k = true -> filter nonforced (l ++ [(k, v)]) = filter nonforced l.
Proof. intros H. rewrite filter_app. cbn [filter]. unfold nonforced, akey. cbn [fst]. rewrite H. cbn. apply app_nil_r. Qed.

Lemma key_forced k a : forced_key k = true -> key_is k a = true -> nonforced a = false.
Proof. intros Hk Ha. unfold nonforced. unfold key_is in Ha. apply beqb_eq in Ha. rewrite Ha, Hk. reflexivity. Qed.
Lemma key_forced_pair k a v : forced_key k = true -> key_is k a = true -> nonforced (akey a, v) = false.
Proof. intros Hk Ha. unfold nonforced, akey. cbn [fst]. unfold key_is, akey in Ha. apply beqb_eq in Ha. rewrite Ha, Hk. reflexivity. Qed.

Lemma forced_rel : forced_key (B"rel") = true. Proof. reflexivity. Qed.
Lemma forced_target : forced_key (B"target") = true. Proof. reflexivity. Qed.
Lemma forced_crossorigin : forced_key (B"crossorigin") = true. Proof. reflexivity. Qed.
Lemma forced_sandbox : forced_key (B"sandbox") = true. Proof. reflexivity. Qed.

(* a map that rewrites only the attributes with one forced key *)
Lemma nf_forced_map k (g : attr -> bytes) l : forced_key k = true ->
  filter nonforced (map (fun a => if key_is k a then (akey a, g a) else a) l) = filter nonforced l.
Proof.
  intros Hk. apply nf_map.
  - intros a Ha. destruct (key_is k a) eqn:E; [|reflexivity]. rewrite (key_forced k a Hk E) in Ha. discriminate.
  - intros a Ha. destruct (key_is k a) eqn:E; [apply (key_forced_pair k a _ Hk E) | exact Ha].
Qed.

Section Links.
  Variables M U R : Type.
  Variable I : interp M U R.
  Variable p : policy M U R.

  Lemma lp1_nonforced is_a nfq nrq tbq : forall attrs nf nr tb r nf' nr' tb',
    link_pass1 is_a nfq nrq tbq attrs nf nr tb = (r, nf', nr', tb') -> filter nonforced r = filter nonforced attrs.
  Proof.
    induction attrs as [|a rest IH]; intros nf nr tb r nf' nr' tb' H; cbn [link_pass1] in H.
    - inversion H; reflexivity.
    - destruct (key_is (B"rel") a && (nfq || nrq)) eqn:Erel.
      + apply andb_true_iff in Erel as [Ek _].
        destruct (link_pass1 is_a nfq nrq tbq rest nfq nrq tb) as [[[r0 x] y] z] eqn:E0. inversion H; subst.
        cbn [filter]. rewrite (key_forced_pair _ a _ forced_rel Ek), (key_forced _ a forced_rel Ek). eapply IH; eauto.
      + destruct (is_a && key_is (B"target") a) eqn:Etg.
        * apply andb_true_iff in Etg as [_ Ekt].
          destruct (tbq && negb (tb || beqb (aval a) (B"_blank"))).
          -- destruct (link_pass1 is_a nfq nrq tbq rest nf nr true) as [[[r0 x] y] z] eqn:E0. inversion H; subst.
             cbn [filter]. rewrite (key_forced_pair _ a _ forced_target Ekt), (key_forced _ a forced_target Ekt). eapply IH; eauto.
          -- destruct (link_pass1 is_a nfq nrq tbq rest nf nr (tb || beqb (aval a) (B"_blank"))) as [[[r0 x] y] z] eqn:E0. inversion H; subst.
             cbn [filter]. erewrite IH by eauto. reflexivity.
        * destruct (link_pass1 is_a nfq nrq tbq rest nf nr tb) as [[[r0 x] y] z] eqn:E0. inversion H; subst.
          cbn [filter]. erewrite IH by eauto. reflexivity.
  Qed.

  Lemma noopener_nonforced l : filter nonforced (noopener_pass l) = filter nonforced l.
  Proof.
    unfold noopener_pass. destruct (existsb (key_is (B"rel")) l).
    - apply nf_map.
      + intros a Ha. destruct (key_is (B"rel") a) eqn:E; [|reflexivity]. rewrite (key_forced _ a forced_rel E) in Ha. discriminate.
      + intros a Ha. destruct (key_is (B"rel") a) eqn:E; [|exact Ha]. destruct (has_rel_token _ _); [exact Ha | apply (key_forced_pair _ a _ forced_rel E)].
    - apply nf_app_forced. reflexivity.
  Qed.

  Lemma link_pass_nonforced elem l : filter nonforced (link_pass I p elem l) = filter nonforced l.
  Proof.
    unfold link_pass. match goal with |- context [if ?c then _ else l] => destruct c end; [|reflexivity].
    destruct (href_external I l) as [hf ext]. destruct hf; [|reflexivity].
    match goal with |- context [link_pass1 ?a ?b ?c ?d l false false false] =>
      destruct (link_pass1 a b c d l false false false) as [[[tmp nf] nr] tb] eqn:E end.
    pose proof (lp1_nonforced _ _ _ _ _ _ _ _ _ _ _ _ E) as Ht.
    set (attrs1 := if nf || nr || tb then tmp else l).
    assert (H1 : filter nonforced attrs1 = filter nonforced l) by (subst attrs1; destruct (nf || nr || tb); [exact Ht | reflexivity]).
    match goal with |- context [if ?c then attrs1 ++ ?x else attrs1] => set (attrs2 := if c then attrs1 ++ x else attrs1) end.
    assert (H2 : filter nonforced attrs2 = filter nonforced l).
    { subst attrs2. match goal with |- context [if ?c then _ else _] => destruct c end; [|exact H1]. rewrite nf_app_forced by reflexivity. exact H1. }
    match goal with |- context [if ?c then (attrs2 ++ ?x, true) else (attrs2, tb)] => destruct c end.
    - rewrite noopener_nonforced, nf_app_forced by reflexivity. exact H2.
    - destruct tb; [rewrite noopener_nonforced|]; exact H2.
  Qed.

  Lemma crossorigin_nonforced elem l : filter nonforced (crossorigin_pass p elem l) = filter nonforced l.
  Proof.
    unfold crossorigin_pass. match goal with |- context [if ?c then _ else l] => destruct c end; [|reflexivity].
    destruct (existsb _ l); [apply (nf_forced_map (B"crossorigin") (fun _ => B"anonymous")); reflexivity | apply nf_app_forced; reflexivity].
  Qed.

  Lemma sandbox_nonforced elem l : filter nonforced (sandbox_pass p elem l) = filter nonforced l.
  Proof.
    unfold sandbox_pass. destruct (requireSandbox p) as [allowed|]; [|reflexivity].
    destruct (beqb elem (B"iframe")); [|reflexivity].
    destruct (existsb _ l); [apply (nf_forced_map (B"sandbox") (fun a => join (dedup_keep allowed [] (fields (aval a))) [32])); reflexivity | apply nf_app_forced; reflexivity].
  Qed.
End Links.

Section Idem.
  Variables M U R : Type.
  Variable I : interp M U R.
  Variable p : policy M U R.
  Variable elem : bytes.
  Variable aps : amap (list (attr_policy M)).

  Hypothesis Hstyle : style_stable M U R I p elem.
  (* the policy does not itself allow any of the forced attributes on this element *)
  Hypothesis Hforced : forall k v, forced_key k = true -> filter_attr I p elem aps (has_style_policies I p elem) (k, v) = [].
  (* the element's URL attribute carries no value pattern *)
  Hypothesis Hurl : forall k v u, url_attr_of elem = Some k ->
    filter_attr I p elem aps (has_style_policies I p elem) (k, v) = [(k, v)] -> filter_attr I p elem aps (has_style_policies I p elem) (k, u) = [(k, u)].
  Hypothesis Hrw : srcRewriter p = None.
  (* net/url: a value validURL returned is returned unchanged when validated again (hypothesis U5) *)
  Hypothesis Hstable : forall raw u, valid_url I p raw = Some u -> valid_url I p u = Some u.
  (* not an iframe under RequireSandboxOnIFrame (iframe is a raw-text element, outside C20's class) *)
  Hypothesis Hnosandbox : forall l, sandbox_pass p elem l = l.

  Notation Fa := (filter_attr I p elem aps (has_style_policies I p elem)).

  Definition settled (a : attr) : Prop := nonforced a = true /\ Fa a = [a].
  Definition url_settled (a : attr) : Prop := settled a /\ url_pass_attr I p elem a = [a].

  Lemma F_settled l : Forall settled (flat_map Fa l).
  Proof.
    apply Forall_forall. intros a Ha. apply in_flat_map in Ha as (a0 & _ & Ha).
    pose proof (filter_attr_kept M U R I p elem aps a0 a Hstyle Ha) as E. split; [|exact E].
    destruct (nonforced a) eqn:En; [reflexivity|]. exfalso. unfold nonforced in En. apply negb_false_iff in En.
    destruct a as [k v]. cbn [akey fst] in En. rewrite (Hforced k v En) in E. discriminate.
  Qed.

  Lemma U_settled l : Forall settled l -> Forall url_settled (flat_map (url_pass_attr I p elem) l).
  Proof.
    intros H. apply Forall_forall. intros a Ha. apply in_flat_map in Ha as (a0 & H0 & Ha).
    rewrite Forall_forall in H. destruct (H a0 H0) as [Hn Hf].
    unfold url_pass_attr in Ha. destruct (url_attr_of elem) as [k|] eqn:Ek.
    - destruct (key_is k a0) eqn:Eka.
      + destruct (valid_url I p (aval a0)) as [u|] eqn:Ev; [|contradiction]. destruct Ha as [<-|[]].
        rewrite Hrw. assert (Eu : (if beqb k (B"src") then u else u) = u) by (destruct (beqb k (B"src")); reflexivity). rewrite Eu.
        assert (Hk : akey a0 = k) by (unfold key_is in Eka; apply beqb_eq in Eka; exact Eka).
        split; [split|].
        * unfold nonforced in *. cbn [akey fst]. exact Hn.
        * rewrite Hk. apply (Hurl k (aval a0) u eq_refl). rewrite <- Hk. rewrite attr_eta0. exact Hf.
        * unfold url_pass_attr. rewrite Ek. change (key_is k (akey a0, u)) with (key_is k a0). rewrite Eka. cbn [aval snd]. rewrite (Hstable _ _ Ev), Hrw, Eu. reflexivity.
      + destruct Ha as [<-|[]]. split; [split; assumption|]. unfold url_pass_attr. rewrite Ek, Eka. reflexivity.
    - destruct Ha as [<-|[]]. split; [split; assumption|]. unfold url_pass_attr. rewrite Ek. reflexivity.
  Qed.

  Lemma F_forced_nil a : nonforced a = false -> Fa a = [].
  Proof. intros H. unfold nonforced in H. apply negb_false_iff in H. destruct a as [k v]. apply Hforced. exact H. Qed.

  Lemma F_drop_forced : forall l, flat_map Fa l = flat_map Fa (filter nonforced l).
  Proof.
    induction l as [|a l IH]; cbn [flat_map filter]; [reflexivity|].
    destruct (nonforced a) eqn:E; cbn [flat_map]; [rewrite IH; reflexivity | rewrite (F_forced_nil a E), IH; reflexivity].
  Qed.

  Lemma F_of_settled : forall l, Forall settled l -> flat_map Fa l = l.
  Proof. induction 1 as [|a l [_ Ha] Hl IH]; cbn [flat_map]; [reflexivity|]. rewrite Ha, IH. reflexivity. Qed.

  Lemma nf_of_settled : forall l, Forall settled l -> filter nonforced l = l.
  Proof. induction 1 as [|a l [Ha _] Hl IH]; cbn [filter]; [reflexivity|]. rewrite Ha, IH. reflexivity. Qed.

  Lemma U_of_settled : forall l, Forall url_settled l -> flat_map (url_pass_attr I p elem) l = l.
  Proof. induction 1 as [|a l [_ Ha] Hl IH]; cbn [flat_map]; [reflexivity|]. rewrite Ha, IH. reflexivity. Qed.

  Definition mid_passes (c0 : list attr) : list attr :=
    if linkable elem then link_pass I p elem (if requireParseableURLs p then flat_map (url_pass_attr I p elem) c0 else c0) else c0.

  Lemma sanitize_attrs_unfold attrs :
    sanitize_attrs I p elem attrs aps =
    match attrs with
    | [] => []
    | _ => match flat_map Fa attrs with [] => [] | _ => crossorigin_pass p elem (mid_passes (flat_map Fa attrs)) end
    end.
  Proof.
    unfold sanitize_attrs, mid_passes. destruct attrs as [|a0 ar]; [reflexivity|].
    destruct (flat_map Fa (a0 :: ar)) as [|c0 cl]; [reflexivity|]. apply Hnosandbox.
  Qed.

  Lemma link_pass_nil : link_pass I p elem [] = [].
  Proof. unfold link_pass. rewrite andb_false_r. reflexivity. Qed.
  Lemma crossorigin_pass_nil : crossorigin_pass p elem [] = [].
  Proof. unfold crossorigin_pass. rewrite andb_false_r. reflexivity. Qed.

  Theorem sanitize_attrs_idem_forced_rejected attrs :
    sanitize_attrs I p elem (sanitize_attrs I p elem attrs aps) aps = sanitize_attrs I p elem attrs aps.
  Proof.
    rewrite (sanitize_attrs_unfold attrs). destruct attrs as [|a0 ar]; [reflexivity|].
    remember (flat_map Fa (a0 :: ar)) as c0 eqn:Ec0.
    assert (S0 : Forall settled c0) by (subst c0; apply F_settled).
    destruct c0 as [|x xs] eqn:Ecc; [reflexivity|]. rewrite <- Ecc in *. clear Ecc x xs.
    (* the list the later passes start from, and what they leave of it *)
    set (c := if linkable elem then (if requireParseableURLs p then flat_map (url_pass_attr I p elem) c0 else c0) else c0).
    assert (Sc : Forall settled c).
    { subst c. destruct (linkable elem); [|exact S0]. destruct (requireParseableURLs p); [|exact S0].
      eapply Forall_impl; [|apply U_settled; exact S0]. intros a [Ha _]. exact Ha. }
    assert (Uc : linkable elem = true -> requireParseableURLs p = true -> Forall url_settled c).
    { intros Hl Hp. subst c. rewrite Hl, Hp. apply U_settled. exact S0. }
    set (out1 := crossorigin_pass p elem (mid_passes c0)).
    assert (Hmid : mid_passes c0 = if linkable elem then link_pass I p elem c else c).
    { unfold mid_passes. subst c. destruct (linkable elem); reflexivity. }
    assert (Hnf : filter nonforced out1 = c).
    { subst out1. rewrite crossorigin_nonforced, Hmid. destruct (linkable elem); [rewrite link_pass_nonforced|]; apply nf_of_settled; exact Sc. }
    assert (HF : flat_map Fa out1 = c) by (rewrite F_drop_forced, Hnf; apply F_of_settled; exact Sc).
    rewrite (sanitize_attrs_unfold out1). destruct out1 as [|o os] eqn:Eo; [reflexivity|]. rewrite <- Eo in *.
    rewrite HF. destruct c as [|y ys] eqn:Ecv.
    - (* nothing left for the later passes: they produce nothing either *)
      exfalso. subst out1. rewrite Hmid in Eo. destruct (linkable elem); [rewrite link_pass_nil in Eo|]; rewrite crossorigin_pass_nil in Eo; discriminate.
    - rewrite <- Ecv in *. subst out1. f_equal. rewrite Hmid. unfold mid_passes.
      destruct (linkable elem) eqn:El; [|reflexivity].
      destruct (requireParseableURLs p) eqn:Ep; [|reflexivity].
      rewrite (U_of_settled c (Uc eq_refl eq_refl)). reflexivity.
  Qed.
End Idem.
Arguments sanitize_attrs_idem_forced_rejected {M U R} I p elem aps.

(* ---- a decidable sufficient condition, element by element ---- *)
Definition forced_keys : list bytes := [B"rel"; B"target"; B"crossorigin"; B"sandbox"].

Section Decide.
  Variables M U R : Type.
  Variable I : interp M U R.
  Variable p : policy M U R.

  Definition forced_rejected_b (aps : amap (list (attr_policy M))) : bool :=
    forallb (fun k => negb (has_key k aps) && negb (has_key k (globalAttrs p))) forced_keys.
  Definition url_unpatterned_b (elem : bytes) (aps : amap (list (attr_policy M))) : bool :=
    match url_attr_of elem with
    | Some k => match lookup k aps with
                | Some l => existsb (fun ap => match ap with None => true | Some _ => false end) l
                | None => false
                end
    | None => true
    end.
  Definition unpatterned_in (k : bytes) (tbl : amap (list (attr_policy M))) : bool :=
    match lookup k tbl with
    | Some l => existsb (fun ap => match ap with None => true | Some _ => false end) l
    | None => false
    end.
  (* the verdict on the element's URL attribute does not depend on its value: a rule without a pattern on the element or
     globally, or no rule at all *)
  Definition url_free_b (elem : bytes) (aps : amap (list (attr_policy M))) : bool :=
    match url_attr_of elem with
    | Some k => unpatterned_in k aps || unpatterned_in k (globalAttrs p) || (negb (has_key k aps) && negb (has_key k (globalAttrs p)))
    | None => true
    end.
  Definition no_sandbox_b (elem : bytes) : bool :=
    negb (beqb elem (B"iframe")) || match requireSandbox p with None => true | Some _ => false end.
  (* the element's attribute list is a fixpoint of sanitizeAttrs after one pass *)
  Definition elem_stable_b (elem : bytes) (aps : amap (list (attr_policy M))) : bool :=
    negb (linkable elem) || (forced_rejected_b aps && url_free_b elem aps && no_sandbox_b elem).

  Lemma forced_key_in k : forced_key k = true -> In k forced_keys.
  Proof.
    unfold forced_key. intros H. repeat (apply orb_true_iff in H as [H|H]); apply beqb_eq in H; subst k; cbn; auto.
  Qed.

  Lemma forced_rejected_sound elem aps hsp : forced_rejected_b aps = true ->
    forall k v, forced_key k = true -> filter_attr I p elem aps hsp (k, v) = [].
  Proof.
    intros Hb k v Hk. unfold forced_rejected_b in Hb. rewrite forallb_forall in Hb.
    specialize (Hb k (forced_key_in k Hk)). apply andb_true_iff in Hb as [H1 H2]. apply negb_true_iff in H1, H2.
    unfold has_key in H1, H2. unfold filter_attr, rules_accept. cbn [akey fst].
    assert (Hd : is_data_attribute k = false /\ key_is (B"style") (k, v) = false).
    { unfold forced_key in Hk. repeat (apply orb_true_iff in Hk as [Hk|Hk]); apply beqb_eq in Hk; subst k; split; vm_compute; reflexivity. }
    destruct Hd as [Hd Hsk]. rewrite Hd, Hsk, andb_false_r. cbn [andb].
    destruct (lookup k aps); [discriminate|]. destruct (lookup k (globalAttrs p)); [discriminate|]. reflexivity.
  Qed.

  Lemma url_key_not_style elem k v : url_attr_of elem = Some k -> key_is (B"style") (k, v) = false.
  Proof.
    unfold url_attr_of. destruct (mem elem href_elements); [intros H; inversion H; reflexivity|].
    destruct (mem elem cite_elements); [intros H; inversion H; reflexivity|].
    destruct (mem elem src_elements); [intros H; inversion H; reflexivity | discriminate].
  Qed.

  Lemma url_unpatterned_sound elem aps hsp : url_unpatterned_b elem aps = true ->
    forall k v, url_attr_of elem = Some k -> filter_attr I p elem aps hsp (k, v) = [(k, v)].
  Proof.
    intros Hb k v Hk. unfold url_unpatterned_b in Hb. rewrite Hk in Hb.
    unfold filter_attr. destruct (allowDataAttributes p && is_data_attribute (akey (k, v))); [reflexivity|].
    rewrite (url_key_not_style elem k v Hk). cbn [andb]. unfold rules_accept. cbn [akey fst aval snd].
    destruct (lookup k aps) as [l|]; [|discriminate].
    assert (E : existsb (rule_accepts I v) l = true).
    { apply existsb_exists in Hb as (ap & Hin & Hap). apply existsb_exists. exists ap. split; [exact Hin|]. destruct ap; [discriminate | reflexivity]. }
    rewrite E. reflexivity.
  Qed.

  Lemma unpatterned_accepts k tbl v : unpatterned_in k tbl = true -> rules_accept I tbl (k, v) = true.
  Proof.
    unfold unpatterned_in, rules_accept. cbn [akey fst aval snd]. destruct (lookup k tbl) as [l|]; [|discriminate].
    intros H. apply existsb_exists in H as (ap & Hin & Hap). apply existsb_exists. exists ap. split; [exact Hin|].
    destruct ap; [discriminate | reflexivity].
  Qed.

  Lemma url_unpatterned_free elem aps : url_unpatterned_b elem aps = true -> url_free_b elem aps = true.
  Proof.
    unfold url_unpatterned_b, url_free_b, unpatterned_in. destruct (url_attr_of elem) as [k|]; [|reflexivity].
    intros H. rewrite H. reflexivity.
  Qed.

  Lemma url_free_sound elem aps hsp : url_free_b elem aps = true ->
    forall k v u, url_attr_of elem = Some k -> filter_attr I p elem aps hsp (k, v) = [(k, v)] -> filter_attr I p elem aps hsp (k, u) = [(k, u)].
  Proof.
    intros Hb k v u Hk. unfold url_free_b in Hb. rewrite Hk in Hb. unfold filter_attr. cbn [akey fst].
    destruct (allowDataAttributes p && is_data_attribute k); [reflexivity|].
    rewrite (url_key_not_style elem k v Hk), (url_key_not_style elem k u Hk). cbn [andb].
    apply orb_true_iff in Hb as [Hb|Hb]; [apply orb_true_iff in Hb as [Hb|Hb]|].
    - intros _. rewrite (unpatterned_accepts k aps u Hb). reflexivity.
    - intros _. destruct (rules_accept I aps (k, u)); [reflexivity|]. rewrite (unpatterned_accepts k _ u Hb). reflexivity.
    - apply andb_true_iff in Hb as [H1 H2]. apply negb_true_iff in H1, H2. unfold has_key in H1, H2.
      unfold rules_accept. cbn [akey fst]. destruct (lookup k aps); [discriminate|]. destruct (lookup k (globalAttrs p)); [discriminate|].
      discriminate.
  Qed.

  Lemma no_sandbox_sound elem : no_sandbox_b elem = true -> forall l, sandbox_pass p elem l = l.
  Proof.
    intros H l. unfold sandbox_pass. unfold no_sandbox_b in H. destruct (requireSandbox p); [|reflexivity].
    destruct (beqb elem (B"iframe")); [cbn in H; discriminate H | reflexivity].
  Qed.

  Hypothesis Hrw : srcRewriter p = None.
  Hypothesis Hstable : forall raw u, valid_url I p raw = Some u -> valid_url I p u = Some u.

  Theorem elem_stable_sound elem aps a : style_stable M U R I p elem -> elem_stable_b elem aps = true ->
    clean_attrs I p elem (clean_attrs I p elem a aps) aps = clean_attrs I p elem a aps.
  Proof.
    intros Hs Hb. unfold elem_stable_b in Hb. destruct (linkable elem) eqn:El.
    - cbn [negb orb] in Hb. apply andb_true_iff in Hb as [Hb H3]. apply andb_true_iff in Hb as [H1 H2].
      assert (E : forall l, clean_attrs I p elem l aps = sanitize_attrs I p elem l aps).
      { intros l. unfold clean_attrs. destruct l; reflexivity. }
      rewrite !E. apply sanitize_attrs_idem_forced_rejected; auto.
      + apply forced_rejected_sound; assumption.
      + apply url_free_sound; assumption.
      + apply no_sandbox_sound; exact H3.
    - apply clean_attrs_idem_plain; assumption.
  Qed.
End Decide.
Arguments elem_stable_b {M U R} p elem aps.
Arguments elem_stable_sound {M U R} I p Hrw Hstable elem aps a.
