(* The ASCII "marked" bytes of a string (e.g. the six characters every hostile CSS value needs) survive
   the string operations of the keyword handlers: splitting on a separator that is not marked,
   strings.TrimSpace and strings.ToLower neither remove nor create them. *)
From Coq Require Import List NArith Bool Arith Lia ZifyN ZifyBool.
Import ListNotations.
From BM Require Import Bytes Utf8 GenUnicode Strings Utf8Props.
Open Scope N_scope.

Section Marked.
  Variable mk : N -> bool.                      (* the marked characters *)
  Hypothesis mk_ascii : forall c, mk c = true -> c < 128.
  Definition D (s : list N) : list N := filter mk s.

  Lemma D_app a b : D (a ++ b) = D a ++ D b. Proof. apply filter_app. Qed.
  Lemma D_big s : Forall (fun c => 128 <= c) s -> D s = [].
  Proof.
    induction 1 as [|c s Hc Hs IH]; [reflexivity|]. cbn [D filter]. fold (D s). rewrite IH.
    destruct (mk c) eqn:E; [apply mk_ascii in E; lia | reflexivity].
  Qed.

  (* one decoding step: an ASCII byte, or bytes and a rune that are all 128 or more *)
  Lemma decode1_shape s r rest : decode1 s = Some (r, rest) ->
    exists pre, s = pre ++ rest /\ ((r < 128 /\ pre = [r]) \/ (128 <= r /\ Forall (fun c => 128 <= c) pre)).
  Proof.
    unfold decode1. destruct s as [|c0 q0]; [discriminate|].
    destruct (c0 <? 128) eqn:E0; [intros H; injection H as <- <-; exists [c0]; split; [reflexivity | left; split; [lia | reflexivity]]|].
    apply N.ltb_ge in E0.
    assert (Bad : forall q, Some (rune_error, q0) = Some (r, rest) -> q = q0 ->
                  exists pre, c0 :: q0 = pre ++ rest /\ (r < 128 /\ pre = [r] \/ 128 <= r /\ Forall (fun c => 128 <= c) pre)).
    { intros q H _. injection H as <- <-. exists [c0]. split; [reflexivity|]. right. split; [unfold rune_error; lia | repeat constructor; exact E0]. }
    unfold cont, in_rng.
    destruct ((194 <=? c0) && (c0 <=? 223)) eqn:E1.
    { destruct q0 as [|c1 q1]; [intros H; exact (Bad [] H eq_refl)|].
      destruct ((128 <=? c1) && (c1 <=? 191)) eqn:Ec; [|intros H; exact (Bad _ H eq_refl)].
      intros H; injection H as <- <-. exists [c0; c1]. split; [reflexivity|]. right. split; [lia | repeat constructor; lia]. }
    destruct ((224 <=? c0) && (c0 <=? 239)) eqn:E2.
    { destruct q0 as [|c1 [|c2 q2]]; try (intros H; exact (Bad _ H eq_refl)).
      destruct (c0 =? 224) eqn:E224; destruct (c0 =? 237) eqn:E237;
        match goal with |- (if ?c then _ else _) = _ -> _ => destruct c eqn:Ec end; try (intros H; exact (Bad _ H eq_refl));
        intros H; injection H as <- <-; exists [c0; c1; c2]; (split; [reflexivity|]); right; (split; [lia | repeat constructor; lia]). }
    destruct ((240 <=? c0) && (c0 <=? 244)) eqn:E3.
    { destruct q0 as [|c1 [|c2 [|c3 q3]]]; try (intros H; exact (Bad _ H eq_refl)).
      destruct (c0 =? 240) eqn:E240; destruct (c0 =? 244) eqn:E244;
        match goal with |- (if ?c then _ else _) = _ -> _ => destruct c eqn:Ec end; try (intros H; exact (Bad _ H eq_refl));
        intros H; injection H as <- <-; exists [c0; c1; c2; c3]; (split; [reflexivity|]); right; (split; [lia | repeat constructor; lia]). }
    intros H; exact (Bad _ H eq_refl).
  Qed.

  (* the marked bytes of a string are the marked runes of its decoding, in order *)
  Theorem D_runes : forall s, D (runes s) = D s.
  Proof.
    intros s. remember (length s) as n eqn:Hn. revert s Hn.
    induction n as [n IH] using lt_wf_ind. intros s Hn.
    rewrite runes_unfold. destruct (decode1 s) as [[r rest]|] eqn:E.
    - pose proof (decode1_length _ _ _ E) as Hl. destruct (decode1_shape _ _ _ E) as (pre & -> & Hsh).
      change (r :: runes rest) with ([r] ++ runes rest). rewrite !D_app, (IH (length rest)); [|subst n; exact Hl | reflexivity].
      f_equal. destruct Hsh as [[_ ->]|[Hr Hp]]; [reflexivity|]. rewrite (D_big pre Hp). apply D_big. repeat constructor. exact Hr.
    - destruct s; [reflexivity | exfalso; exact (decode1_cons _ _ E)].
  Qed.

  (* ---- encoding ---- *)
  Lemma encode1_small r : r < 128 -> encode1 r = [r].
  Proof.
    intros H. unfold encode1, in_rng.
    assert (E1 : (55296 <=? r) && (r <=? 57343) || (1114111 <? r) = false) by lia. rewrite E1.
    assert (E2 : r <? 128 = true) by lia. rewrite E2. reflexivity.
  Qed.
  Lemma encode1_big r : 128 <= r -> Forall (fun c => 128 <= c) (encode1 r).
  Proof.
    intros H. unfold encode1.
    set (r' := if in_rng 55296 57343 r || (1114111 <? r) then rune_error else r).
    assert (H' : 128 <= r') by (subst r'; destruct (_ || _); [unfold rune_error; lia | exact H]).
    assert (E : r' <? 128 = false) by lia. rewrite E.
    destruct (r' <? 2048); [repeat constructor; lia|]. destruct (r' <? 65536); repeat constructor; lia.
  Qed.
  Lemma D_encode : forall rs, D (encode rs) = D rs.
  Proof.
    induction rs as [|r rs IH]; [reflexivity|]. unfold encode in *. cbn [flat_map]. rewrite D_app, IH.
    change (r :: rs) with ([r] ++ rs). rewrite D_app. f_equal.
    destruct (N.lt_ge_cases r 128) as [Hr|Hr]; [rewrite (encode1_small r Hr); reflexivity|].
    rewrite (D_big _ (encode1_big r Hr)). symmetry. apply D_big. repeat constructor. exact Hr.
  Qed.

  (* ---- a map that fixes the marked characters and marks nothing new ---- *)
  Lemma D_map (f : N -> N) : (forall c, mk c = true -> f c = c) -> (forall c, mk c = false -> mk (f c) = false) ->
    forall s, D (map f s) = D s.
  Proof.
    intros H1 H2. induction s as [|c s IH]; [reflexivity|]. cbn [map D filter]. fold (D (map f s)) (D s). rewrite IH.
    destruct (mk c) eqn:E; [rewrite (H1 c E), E; reflexivity | rewrite (H2 c E); reflexivity].
  Qed.

  (* ---- strings.ToLower ---- *)
  Hypothesis mk_not_upper : forall c, mk c = true -> is_upper c = false.
  Hypothesis mk_not_lower : forall c, is_lower c = true -> mk c = false.
  Hypothesis mk_table : forallb (fun pr => negb (mk (snd pr))) lower_pairs = true.

  Lemma lowerc_fix c : mk c = true -> lowerc c = c.
  Proof. intros H. unfold lowerc. rewrite (mk_not_upper c H). reflexivity. Qed.
  Lemma lowerc_unmarked c : mk c = false -> mk (lowerc c) = false.
  Proof.
    intros H. unfold lowerc. destruct (is_upper c) eqn:E; [|exact H]. apply mk_not_lower.
    unfold is_upper, is_lower in *. lia.
  Qed.
  Lemma assoc_in k l v : assoc k l = Some v -> In (k, v) l.
  Proof.
    induction l as [|[a b] l IH]; [discriminate|]. cbn [assoc]. destruct (a =? k) eqn:E.
    - intros H. injection H as <-. apply N.eqb_eq in E. subst a. left. reflexivity.
    - intros H. right. apply IH. exact H.
  Qed.
  Lemma lower_rune_fix r : mk r = true -> lower_rune r = r.
  Proof. intros H. unfold lower_rune. pose proof (mk_ascii r H) as Hr. assert (E : r <? 128 = true) by lia. rewrite E. apply lowerc_fix. exact H. Qed.
  Lemma lower_rune_unmarked r : mk r = false -> mk (lower_rune r) = false.
  Proof.
    intros H. unfold lower_rune. destruct (r <? 128); [apply lowerc_unmarked; exact H|].
    destruct (assoc r lower_pairs) as [l|] eqn:E; [|exact H].
    apply assoc_in in E. rewrite forallb_forall in mk_table. specialize (mk_table _ E). cbn [snd] in mk_table.
    apply negb_true_iff in mk_table. exact mk_table.
  Qed.

  Theorem D_to_lower s : D (to_lower s) = D s.
  Proof.
    unfold to_lower. destruct (is_ascii s).
    - unfold lower_ascii. apply D_map; [apply lowerc_fix | apply lowerc_unmarked].
    - rewrite D_encode, (D_map lower_rune lower_rune_fix lower_rune_unmarked). apply D_runes.
  Qed.

  (* ---- strings.Split on a one-byte separator that is not marked ---- *)
  Lemma D_split_fuel c : mk c = false -> forall fuel s cur, (length s < fuel)%nat ->
    concat (map D (split_fuel fuel s [c] cur)) = D (rev cur) ++ D s.
  Proof.
    intros Hc. induction fuel as [|f IH]; intros s cur Hf; [lia|]. cbn [split_fuel]. destruct s as [|x s'].
    - cbn [map concat]. rewrite !app_nil_r. reflexivity.
    - cbn [has_prefix]. assert (Hp : has_prefix s' [] = true) by (destruct s'; reflexivity). rewrite Hp, andb_true_r. cbn [length] in Hf. destruct (c =? x) eqn:E.
      + apply N.eqb_eq in E. subst x. cbn [map concat length skipn]. rewrite (IH s' [] ltac:(lia)). f_equal.
        change (D (rev [])) with (@nil N). cbn [app]. unfold D. cbn [filter]. rewrite Hc. reflexivity.
      + rewrite (IH s' (x :: cur) ltac:(lia)). cbn [rev]. rewrite D_app, <- app_assoc. f_equal.
        change (x :: s') with ([x] ++ s'). rewrite D_app. reflexivity.
  Qed.
  Theorem D_split c s : mk c = false -> concat (map D (split s [c])) = D s.
  Proof. intros Hc. unfold split. rewrite (D_split_fuel c Hc); [reflexivity | lia]. Qed.

  (* ---- strings.TrimSpace ---- *)
  Hypothesis mk_space : forall r, is_space_rune r = true -> mk r = false.

  Lemma D_trim_left_fuel : forall f s, D (trim_left_fuel f s) = D s.
  Proof.
    induction f as [|f IH]; intros s; [reflexivity|]. cbn [trim_left_fuel].
    destruct (decode1 s) as [[r rest]|] eqn:E; [|reflexivity]. destruct (is_space_rune r) eqn:Es; [|reflexivity].
    rewrite IH. destruct (decode1_shape _ _ _ E) as (pre & -> & Hsh). rewrite D_app.
    destruct Hsh as [[_ ->]|[_ Hp]]; [unfold D; cbn [filter]; rewrite (mk_space r Es); reflexivity | rewrite (D_big pre Hp); reflexivity].
  Qed.

  (* a space rune was decoded from exactly its encoding's worth of bytes *)
  Lemma space_decode_len s r rest : decode1 s = Some (r, rest) -> is_space_rune r = true ->
    length s = (length rest + length (encode1 r))%nat.
  Proof.
    unfold decode1. destruct s as [|c0 q0]; [discriminate|].
    destruct (c0 <? 128) eqn:E0.
    { intros H _. injection H as <- <-. rewrite encode1_small by lia. cbn [length]. lia. }
    apply N.ltb_ge in E0. intros H Hs.
    assert (Hnerr : r <> rune_error) by (intros ->; vm_compute in Hs; discriminate).
    assert (Bad : Some (rune_error, q0) = Some (r, rest) -> False) by (intros X; injection X as X _; congruence).
    assert (Hmax : r <= 12288).
    { unfold is_space_rune in Hs. lia. }
    unfold cont, in_rng in H.
    destruct ((194 <=? c0) && (c0 <=? 223)) eqn:E1.
    { destruct q0 as [|c1 q1]; [destruct (Bad H)|]. destruct ((128 <=? c1) && (c1 <=? 191)) eqn:Ec; [|destruct (Bad H)].
      injection H as <- <-. unfold encode1, in_rng.
      set (v := (c0 - 192) * 64 + (c1 - 128)). assert (Hv : 128 <= v /\ v < 2048) by (subst v; lia).
      assert (X1 : (55296 <=? v) && (v <=? 57343) || (1114111 <? v) = false) by lia. rewrite X1.
      assert (X2 : v <? 128 = false) by lia. assert (X3 : v <? 2048 = true) by lia. rewrite X2, X3. cbn [length]. lia. }
    destruct ((224 <=? c0) && (c0 <=? 239)) eqn:E2.
    { destruct q0 as [|c1 [|c2 q2]]; try destruct (Bad H).
      destruct (c0 =? 224) eqn:E224; destruct (c0 =? 237) eqn:E237;
        match type of H with (if ?c then _ else _) = _ => destruct c eqn:Ec end; try destruct (Bad H);
        injection H as <- <-; unfold encode1, in_rng;
        set (v := (c0 - 224) * 4096 + (c1 - 128) * 64 + (c2 - 128)) in *;
        (assert (Hv : 2048 <= v /\ v <= 12288) by (subst v; lia));
        (assert (X1 : (55296 <=? v) && (v <=? 57343) || (1114111 <? v) = false) by lia); rewrite X1;
        (assert (X2 : v <? 128 = false) by lia); (assert (X3 : v <? 2048 = false) by lia); (assert (X4 : v <? 65536 = true) by lia);
        rewrite X2, X3, X4; cbn [length]; lia. }
    destruct ((240 <=? c0) && (c0 <=? 244)) eqn:E3.
    { destruct q0 as [|c1 [|c2 [|c3 q3]]]; try destruct (Bad H).
      destruct (c0 =? 240) eqn:E240; destruct (c0 =? 244) eqn:E244;
        match type of H with (if ?c then _ else _) = _ => destruct c eqn:Ec end; try destruct (Bad H);
        injection H as <- <-; exfalso; lia. }
    destruct (Bad H).
  Qed.

  (* trailing space runes take no more bytes than the string has *)
  Lemma trailing_spaces_len : forall b rs1 t, runes b = rs1 ++ t -> Forall (fun r => is_space_rune r = true) t ->
    (length (encode t) <= length b)%nat.
  Proof.
    intros b. remember (length b) as n eqn:Hn. revert b Hn.
    induction n as [n IH] using lt_wf_ind. intros b Hn rs1 t Hr Ht.
    rewrite runes_unfold in Hr. destruct (decode1 b) as [[r rest]|] eqn:E.
    - pose proof (decode1_length _ _ _ E) as Hl. rewrite <- Hn in Hl. destruct rs1 as [|r1 rs1'].
      + cbn [app] in Hr. subst t. inversion Ht as [|? ? Hsp Ht']; subst.
        pose proof (space_decode_len _ _ _ E Hsp) as Hlen.
        assert (H' : (length (encode (runes rest)) <= length rest)%nat) by (apply (IH (length rest) Hl rest eq_refl [] (runes rest) eq_refl Ht')).
        unfold encode in *. cbn [flat_map]. rewrite app_length. lia.
      + injection Hr as _ Hr. assert (H' : (length (encode t) <= length rest)%nat) by (apply (IH (length rest) Hl rest eq_refl rs1' t Hr Ht)). subst n. lia.
    - destruct rs1; [|discriminate]. cbn [app] in Hr. subst t. cbn. lia.
  Qed.

  Lemma length_encode_rev l : length (encode (rev l)) = length (encode l).
  Proof.
    unfold encode. induction l as [|r l IH]; [reflexivity|]. cbn [rev flat_map]. rewrite flat_map_app, !app_length, IH. cbn [flat_map]. rewrite app_nil_r. lia.
  Qed.

  Lemma drop_trailing_split l : exists sp, l = sp ++ drop_trailing_spaces l /\ Forall (fun r => is_space_rune r = true) sp.
  Proof.
    induction l as [|r l IH]; [exists []; split; [reflexivity | constructor]|]. cbn [drop_trailing_spaces].
    destruct (is_space_rune r) eqn:E; [|exists []; split; [reflexivity | constructor]].
    destruct IH as (sp & Hl & Hsp). exists (r :: sp). split; [cbn [app]; f_equal; exact Hl | constructor; assumption].
  Qed.
  Lemma drop_trailing_stop x d y : is_space_rune d = false -> drop_trailing_spaces (x ++ d :: y) = drop_trailing_spaces x ++ d :: y.
  Proof.
    intros Hd. induction x as [|r x IH]; cbn [app drop_trailing_spaces]; [rewrite Hd; reflexivity|].
    destruct (is_space_rune r); [exact IH | reflexivity].
  Qed.

  (* the bytes TrimSpace cuts off at the end fit into any tail that follows a marked byte *)
  Lemma count_trailing_le a d b : mk d = true -> (count_trailing_space_bytes (a ++ d :: b) <= length b)%nat.
  Proof.
    intros Hd. pose proof (mk_ascii d Hd) as Hda.
    assert (Hns : is_space_rune d = false) by (destruct (is_space_rune d) eqn:E; [rewrite (mk_space d E) in Hd; discriminate | reflexivity]).
    unfold count_trailing_space_bytes.
    assert (Hr : runes (a ++ d :: b) = runes a ++ d :: runes b).
    { rewrite runes_app_ascii by exact Hda. f_equal. rewrite runes_unfold. unfold decode1. assert (E : d <? 128 = true) by lia. rewrite E. reflexivity. }
    rewrite Hr, rev_app_distr. cbn [rev]. rewrite <- app_assoc. cbn [app].
    set (x := rev (runes b)). rewrite (drop_trailing_stop x d (rev (runes a)) Hns).
    destruct (drop_trailing_split x) as (sp & Hx & Hsp).
    rewrite !app_length. cbn [length].
    replace (length x + S (length (rev (runes a))) - (length (drop_trailing_spaces x) + S (length (rev (runes a)))))%nat
      with (length sp) by (rewrite Hx at 1; rewrite app_length; lia).
    assert (Hf : firstn (length sp) (x ++ d :: rev (runes a)) = sp).
    { rewrite Hx at 1. rewrite <- app_assoc. rewrite firstn_app, Nat.sub_diag, firstn_all. cbn [firstn]. apply app_nil_r. }
    rewrite Hf, <- length_encode_rev.
    apply (trailing_spaces_len b (rev (drop_trailing_spaces x)) (rev sp)).
    - rewrite <- rev_app_distr, <- Hx. subst x. symmetry. apply rev_involutive.
    - apply Forall_rev. exact Hsp.
  Qed.

  Lemma last_marked : forall s, D s <> [] -> exists a d b, s = a ++ d :: b /\ mk d = true /\ D b = [].
  Proof.
    induction s as [|c s IH]; intros H; [exfalso; apply H; reflexivity|].
    destruct (D s) as [|m ms] eqn:E.
    - exists [], c, s. split; [reflexivity|]. split; [|exact E].
      unfold D in H. cbn [filter] in H. fold (D s) in H. rewrite E in H. destruct (mk c); [reflexivity | exfalso; apply H; reflexivity].
    - destruct IH as (a & d & b & -> & Hd & Hb); [discriminate|]. exists (c :: a), d, b. split; [reflexivity | split; assumption].
  Qed.

  Lemma D_prefix_nil s m : D s = [] -> D (firstn m s) = [].
  Proof.
    intros H. rewrite <- (firstn_skipn m s), D_app in H. apply app_eq_nil in H. exact (proj1 H).
  Qed.

  Theorem D_trim_right s : D (trim_right_space s) = D s.
  Proof.
    unfold trim_right_space. destruct (D s) as [|m ms] eqn:E; [apply D_prefix_nil; exact E|]. rewrite <- E.
    destruct (last_marked s) as (a & d & b & -> & Hd & Hb); [rewrite E; discriminate|].
    pose proof (count_trailing_le a d b Hd) as Hk. set (k := count_trailing_space_bytes (a ++ d :: b)) in *.
    rewrite app_length. cbn [length].
    replace (length a + S (length b) - k)%nat with (length a + (S (length b - k)))%nat by lia.
    rewrite firstn_app_2. cbn [firstn]. rewrite !D_app. f_equal.
    change (d :: firstn (length b - k) b) with ([d] ++ firstn (length b - k) b). change (d :: b) with ([d] ++ b).
    rewrite !D_app, Hb, (D_prefix_nil b _ Hb). reflexivity.
  Qed.

  Theorem D_trim_space s : D (trim_space s) = D s.
  Proof. unfold trim_space, trim_left_space. rewrite D_trim_right. apply D_trim_left_fuel. Qed.
End Marked.
