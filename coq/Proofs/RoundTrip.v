(* Re-reading what Token.String wrote: the tokenizer model run on rendered items.
   Part 1: one token at a time (text, start tag, self-closing tag, end tag). *)
From Coq Require Import List NArith Bool Lia.
Import ListNotations.
From BM Require Import Bytes Utf8 Strings Escape Tokenizer EscapeProofs CommentRT.
Open Scope N_scope.

(* ---- basic scanning facts -------------------------------------------------------------- *)
Lemma until_app : forall p a c r, Forall (fun x => p x = false) a -> p c = true -> until p (a ++ c :: r) = (a, c :: r).
Proof.
  induction a as [|x a IH]; simpl; intros c r Ha Hc.
  - rewrite Hc. reflexivity.
  - inversion Ha; subst. rewrite H1. rewrite IH; auto.
Qed.

Lemma skip_ws_nonws : forall c s, is_ws c = false -> skip_ws (c :: s) = c :: s.
Proof. intros c s H. simpl. rewrite H. reflexivity. Qed.
Lemma skip_ws_sp : forall s, skip_ws (SP :: s) = skip_ws s.
Proof. reflexivity. Qed.

(* ---- well-formed names, keys, values ---------------------------------------------------- *)
Definition name_ok (n : bytes) : Prop :=
  (exists c n', n = c :: n' /\ is_letter c = true) /\
  Forall (fun c => name_stop c = false /\ is_upper c = false) n.
Definition key_ok (k : bytes) : Prop :=
  (exists c k', k = c :: k' /\ is_ws c = false /\ c <> SLASH /\ c <> GT /\ Forall (fun x => key_stop x = false) k') /\
  Forall (fun c => is_upper c = false) k.
Definition val_ok (v : bytes) : Prop := Forall (fun c => (c =? DQ) = false) v.
Definition rattr_ok (a : attr) : Prop := key_ok (fst a) /\ val_ok (snd a).

Lemma lower_id : forall n, Forall (fun c => is_upper c = false) n -> lower n = n.
Proof.
  unfold lower, lower_ascii. induction n as [|c n IH]; simpl; intros H; auto.
  inversion H; subst. unfold lowerc. rewrite H2. f_equal. auto.
Qed.

(* the escaped form of any value contains no double quote *)
Lemma escape_val_ok v : val_ok (escape v).
Proof.
  unfold val_ok. apply Forall_forall. intros c Hc. destruct (escape_inert v c Hc) as (_ & _ & H & _).
  apply N.eqb_neq. exact H.
Qed.

(* ---- attributes as written by tagString: SP key = " value " ----------------------------- *)
Definition raw_attr (a : attr) : bytes := SP :: fst a ++ [EQ; DQ] ++ snd a ++ [DQ].
Definition raw_attrs (a : list attr) : bytes := flat_map raw_attr a.

Lemma read_key_ok : forall k r, key_ok k -> read_key (k ++ EQ :: r) = (k, EQ :: r).
Proof.
  intros k r [(c & k' & -> & Hws & Hs & Hg & Hk) _]. unfold read_key. cbn [app].
  destruct (c =? EQ) eqn:E.
  - rewrite (until_app key_stop k' EQ r); auto.
  - assert (key_stop c = false).
    { unfold key_stop. rewrite Hws, E. simpl. apply N.eqb_neq in Hs, Hg. rewrite Hs, Hg. reflexivity. }
    change (c :: k' ++ EQ :: r) with ((c :: k') ++ EQ :: r). rewrite (until_app key_stop (c :: k') EQ r); auto.
Qed.

Lemma read_val_dq : forall v r, val_ok v -> read_val (EQ :: DQ :: v ++ DQ :: r) = Some (v, r).
Proof.
  intros v r Hv. unfold read_val.
  rewrite (skip_ws_nonws EQ) by reflexivity.
  change (EQ =? SLASH) with false. change (negb (EQ =? EQ)) with false. cbv iota.
  rewrite (skip_ws_nonws DQ) by reflexivity.
  change (DQ =? GT) with false. change ((DQ =? SQ) || (DQ =? DQ)) with true. cbv iota.
  rewrite (until_app (fun x => x =? DQ) v DQ r); auto.
Qed.

Lemma read_attrs_S : forall f c s', read_attrs (S f) (c :: s') =
  if c =? GT then Some ([], s') else
  let (k, r) := read_key (c :: s') in
  match read_val r with
  | None => None
  | Some (v, r2) => match skip_ws r2 with
                    | [] => None
                    | r3 => match read_attrs f r3 with
                            | None => None
                            | Some (l, rest) => Some ((match k with [] => l | _ => (k, v) :: l end), rest)
                            end
                    end
  end.
Proof. reflexivity. Qed.

(* what follows the attributes: ">" or "/>" *)
Inductive tag_close := CloseStart | CloseSelf.
Definition close_bytes (c : tag_close) (rest : bytes) : bytes :=
  match c with CloseStart => GT :: rest | CloseSelf => SLASH :: GT :: rest end.

Lemma read_attrs_close : forall c rest fuel, (2 <= fuel)%nat -> read_attrs fuel (close_bytes c rest) = Some ([], rest).
Proof.
  intros c rest fuel Hf. destruct fuel as [|[|f]]; try lia. destruct c; [reflexivity|].
  unfold close_bytes. rewrite read_attrs_S. change (SLASH =? GT) with false. cbv iota.
  reflexivity.
Qed.

Lemma skip_ws_close c rest : skip_ws (close_bytes c rest) = close_bytes c rest.
Proof. destruct c; reflexivity. Qed.

Lemma key_first_nonws k : key_ok k -> exists c k', k = c :: k' /\ is_ws c = false /\ (c =? GT) = false.
Proof.
  intros [(c & k' & -> & Hws & _ & Hg & _) _]. exists c, k'. repeat split; auto. apply N.eqb_neq. exact Hg.
Qed.

Lemma read_attrs_render : forall a c rest fuel, Forall rattr_ok a -> (length a + 2 <= fuel)%nat ->
  read_attrs fuel (skip_ws (raw_attrs a ++ close_bytes c rest)) = Some (a, rest).
Proof.
  induction a as [|[k v] a IH]; intros c rest fuel Ha Hf.
  - cbn [raw_attrs flat_map app]. rewrite skip_ws_close. apply read_attrs_close. simpl in Hf. lia.
  - inversion Ha as [|? ? [Hk Hv] Ha']; subst. cbn [fst snd] in Hk, Hv.
    cbn [raw_attrs flat_map]. fold (raw_attrs a). unfold raw_attr. cbn [fst snd].
    cbn [app]. rewrite skip_ws_sp.
    destruct (key_first_nonws k Hk) as (c0 & k' & Ek & Hws & Hgt).
    assert (Eapp : ((k ++ EQ :: DQ :: v ++ [DQ]) ++ raw_attrs a) ++ close_bytes c rest
                   = k ++ EQ :: (DQ :: v ++ DQ :: raw_attrs a ++ close_bytes c rest)).
    { rewrite <- !app_assoc. cbn. rewrite <- !app_assoc. reflexivity. }
    rewrite Eapp. rewrite Ek at 1. cbn [app]. rewrite (skip_ws_nonws c0) by exact Hws.
    destruct fuel as [|fuel]; [simpl in Hf; lia|].
    rewrite read_attrs_S. rewrite Hgt.
    change (c0 :: k' ++ EQ :: DQ :: v ++ DQ :: raw_attrs a ++ close_bytes c rest)
      with ((c0 :: k') ++ EQ :: DQ :: v ++ DQ :: raw_attrs a ++ close_bytes c rest).
    rewrite <- Ek. rewrite read_key_ok by exact Hk.
    rewrite read_val_dq by exact Hv.
    assert (Hne : skip_ws (raw_attrs a ++ close_bytes c rest) <> []).
    { destruct a as [|[k2 v2] a2].
      - cbn. rewrite skip_ws_close. destruct c; discriminate.
      - inversion Ha' as [|? ? [Hk2 _] _]; subst. cbn [fst] in Hk2.
        destruct (key_first_nonws k2 Hk2) as (c2 & k2' & -> & Hws2 & _).
        cbn. rewrite Hws2. discriminate. }
    specialize (IH c rest fuel Ha' ltac:(simpl in Hf; lia)).
    destruct (skip_ws (raw_attrs a ++ close_bytes c rest)) as [|x r3] eqn:Er3; [congruence|].
    rewrite IH. rewrite Ek. reflexivity.
Qed.

(* ---- start / self-closing tags ---------------------------------------------------------- *)
Definition raw_tag (n : bytes) (a : list attr) (c : tag_close) (rest : bytes) : bytes :=
  LT :: n ++ raw_attrs a ++ close_bytes c rest.

Lemma name_until n tl : name_ok n -> (exists x tl', tl = x :: tl' /\ name_stop x = true) ->
  until name_stop (n ++ tl) = (n, tl).
Proof.
  intros [_ Hn] (x & tl' & -> & Hx). apply until_app; auto.
  eapply Forall_impl; [|exact Hn]. intros c [H _]. exact H.
Qed.

Lemma tail_starts_stop a c rest : Forall rattr_ok a ->
  exists x tl', raw_attrs a ++ close_bytes c rest = x :: tl' /\ name_stop x = true.
Proof.
  intros _. destruct a as [|[k v] a]; cbn.
  - destruct c; eexists; eexists; split; reflexivity.
  - eexists; eexists; split; reflexivity.
Qed.

Lemma raw_attrs_length a c rest : (length a + 1 <= length (raw_attrs a ++ close_bytes c rest))%nat.
Proof.
  induction a as [|[k v] a IH]; cbn [raw_attrs flat_map].
  - destruct c; simpl; lia.
  - fold (raw_attrs a). unfold raw_attr. cbn [fst snd]. rewrite <- app_assoc. cbn [app length]. rewrite !app_length. cbn [length].
    rewrite !app_length. rewrite app_length in IH. cbn [length]. lia.
Qed.

Lemma skip_ws_length l : (length (skip_ws l) <= length l)%nat.
Proof. induction l as [|y l IH]; simpl; auto. destruct (is_ws y); simpl; lia. Qed.

Lemma skipped_length a c rest : Forall rattr_ok a ->
  (length a + 1 <= length (skip_ws (raw_attrs a ++ close_bytes c rest)))%nat.
Proof.
  intros Ha. destruct a as [|[k v] a].
  - cbn. rewrite skip_ws_close. destruct c; simpl; lia.
  - inversion Ha as [|? ? [Hk _] Ha']; subst. cbn [fst] in Hk.
    destruct (key_first_nonws k Hk) as (c2 & k2' & -> & Hws2 & _).
    pose proof (raw_attrs_length a c rest) as H. rewrite app_length in H.
    unfold raw_attrs. cbn [flat_map]. fold (raw_attrs a). unfold raw_attr at 1. cbn [fst snd app].
    rewrite skip_ws_sp. rewrite (skip_ws_nonws c2) by exact Hws2.
    cbn [length]. rewrite !app_length. cbn [length]. rewrite !app_length. cbn [length]. lia.
Qed.

Lemma read_tag_render n a c rest : name_ok n -> Forall rattr_ok a ->
  read_tag (n ++ raw_attrs a ++ close_bytes c rest) = Some (n, a, rest).
Proof.
  intros Hn Ha. unfold read_tag.
  rewrite (name_until n _ Hn (tail_starts_stop a c rest Ha)).
  assert (Hne : skip_ws (raw_attrs a ++ close_bytes c rest) <> []).
  { destruct a as [|[k2 v2] a2].
    - cbn. rewrite skip_ws_close. destruct c; discriminate.
    - inversion Ha as [|? ? [Hk2 _] _]; subst. cbn [fst] in Hk2.
      destruct (key_first_nonws k2 Hk2) as (c2 & k2' & -> & Hws2 & _).
      cbn. rewrite Hws2. discriminate. }
  pose proof (read_attrs_render a c rest (S (length (skip_ws (raw_attrs a ++ close_bytes c rest)))) Ha) as H.
  destruct (skip_ws (raw_attrs a ++ close_bytes c rest)) as [|x r2] eqn:E; [congruence|].
  rewrite <- E in *. rewrite H; [reflexivity|].
  (* fuel: the skipped remainder is at least as long as the attribute list plus the closing bytes *)
  clear H Hne. rewrite E. pose proof (skipped_length a c rest Ha) as L. rewrite E in L. simpl in *. lia.
Qed.

Lemma name_first_letter n : name_ok n -> exists c n', n = c :: n' /\ is_letter c = true.
Proof. intros [H _]. exact H. Qed.

Lemma name_lower n : name_ok n -> lower n = n.
Proof.
  intros [_ H]. apply lower_id. eapply Forall_impl; [|exact H]. intros c [_ Hc]. exact Hc.
Qed.

(* the byte before the closing '>' decides between start tag and self-closing tag *)
Lemma rev_two {A} (l : list A) x y : rev (l ++ [x; y]) = y :: x :: rev l.
Proof. rewrite rev_app_distr. reflexivity. Qed.

Lemma start_tag_ends n a : name_ok n -> Forall rattr_ok a ->
  exists l x, LT :: n ++ raw_attrs a ++ [GT] = l ++ [x; GT] /\ (x =? SLASH) = false.
Proof.
  intros Hn Ha. destruct a as [|a1 a2].
  - (* no attributes: the last byte of the name *)
    destruct Hn as [(c & n' & -> & _) Hf].
    destruct (exists_last (l := c :: n')) as (n0 & y & E); [discriminate|].
    rewrite E. exists (LT :: n0), y. split.
    + cbn [raw_attrs flat_map app]. rewrite <- app_assoc. reflexivity.
    + rewrite E in Hf. rewrite Forall_forall in Hf. destruct (Hf y) as [Hs _]; [apply in_or_app; right; left; reflexivity|].
      unfold name_stop in Hs. apply orb_false_iff in Hs as [Hs _]. apply orb_false_iff in Hs as [_ Hs]. exact Hs.
  - (* attributes: the closing quote of the last one *)
    destruct (exists_last (l := a1 :: a2)) as (a' & a0 & E); [discriminate|].
    rewrite E. exists (LT :: n ++ raw_attrs a' ++ SP :: fst a0 ++ [EQ; DQ] ++ snd a0), DQ. split; [|reflexivity].
    unfold raw_attrs. rewrite flat_map_app. cbn [flat_map]. rewrite app_nil_r. unfold raw_attr.
    cbn [app]. repeat (rewrite <- app_assoc; cbn [app]). reflexivity.
Qed.

Lemma last_before_gt_start n a : name_ok n -> Forall rattr_ok a ->
  match rev (LT :: n ++ raw_attrs a ++ [GT]) with _ :: p :: _ => p =? SLASH | _ => false end = false.
Proof.
  intros Hn Ha. destruct (start_tag_ends n a Hn Ha) as (l & x & -> & Hx). rewrite rev_two. exact Hx.
Qed.

Lemma last_before_gt_self n a :
  match rev (LT :: n ++ raw_attrs a ++ [SLASH; GT]) with _ :: p :: _ => p =? SLASH | _ => false end = true.
Proof.
  assert (E : LT :: n ++ raw_attrs a ++ [SLASH; GT] = (LT :: n ++ raw_attrs a) ++ [SLASH; GT]) by (cbn [app]; rewrite app_assoc; reflexivity).
  rewrite E, rev_two. reflexivity.
Qed.

(* ---- Part 2: Next on one rendered token ------------------------------------------------ *)
Lemma firstn_app_exact {A} (l r : list A) : firstn (length (l ++ r) - length r) (l ++ r) = l.
Proof.
  rewrite app_length. replace (length l + length r - length r)%nat with (length l + 0)%nat by lia.
  rewrite firstn_app_2. cbn. apply app_nil_r.
Qed.

Definition rawtag_of (n : bytes) : bytes := if is_raw_name n then n else [].

Lemma next_markup_tag n a cl rest : name_ok n -> Forall rattr_ok a ->
  next_markup (raw_tag n a cl rest) =
  Tok (match cl with CloseStart => RStart n a | CloseSelf => RSelf n a end) (rawtag_of n) rest.
Proof.
  intros Hn Ha. pose proof (read_tag_render n a cl rest Hn Ha) as Hrt. pose proof (name_lower n Hn) as Hlow.
  pose proof (last_before_gt_start n a Hn Ha) as Hst. pose proof (last_before_gt_self n a) as Hse.
  assert (Es : LT :: n ++ raw_attrs a ++ close_bytes cl rest
               = (LT :: n ++ raw_attrs a ++ match cl with CloseStart => [GT] | CloseSelf => [SLASH; GT] end) ++ rest).
  { destruct cl; cbn [close_bytes app]; repeat (rewrite <- app_assoc; cbn [app]); reflexivity. }
  destruct (name_first_letter n Hn) as (c & n' & En & Hc).
  unfold raw_tag. set (T := raw_attrs a ++ close_bytes cl rest) in *.
  assert (E0 : LT :: n ++ T = LT :: c :: (n' ++ T)) by (rewrite En; reflexivity).
  rewrite E0. cbn [next_markup]. rewrite Hc.
  assert (E1 : c :: n' ++ T = n ++ T) by (rewrite En; reflexivity).
  rewrite E1, Hrt, Hlow. subst T. rewrite Es, firstn_app_exact.
  destruct cl; [rewrite Hst | rewrite Hse]; reflexivity.
Qed.

Definition raw_end (n : bytes) (rest : bytes) : bytes := LT :: SLASH :: n ++ GT :: rest.

Lemma next_markup_end n rest : name_ok n -> next_markup (raw_end n rest) = Tok (REnd n) [] rest.
Proof.
  intros Hn. pose proof (read_tag_render n [] CloseStart rest Hn (Forall_nil _)) as Hrt. pose proof (name_lower n Hn) as Hlow.
  destruct (name_first_letter n Hn) as (c & n' & En & Hc).
  unfold raw_end.
  assert (E0 : LT :: SLASH :: n ++ GT :: rest = LT :: SLASH :: c :: (n' ++ GT :: rest)) by (rewrite En; reflexivity).
  rewrite E0. cbn [next_markup]. change (SLASH =? SLASH) with true.
  assert (is_letter SLASH = false) as -> by reflexivity. cbv iota.
  assert ((c =? GT) = false) as ->.
  { destruct (c =? GT) eqn:E; auto. apply N.eqb_eq in E. subst c. discriminate Hc. }
  rewrite Hc.
  assert (E1 : c :: n' ++ GT :: rest = n ++ raw_attrs [] ++ close_bytes CloseStart rest) by (rewrite En; reflexivity).
  rewrite E1, Hrt, Hlow. reflexivity.
Qed.

(* text *)
Definition no_lt (t : bytes) : Prop := Forall (fun c => (c =? LT) = false) t.
Definition starts_markup (s : bytes) : Prop := s = [] \/ (exists r, s = LT :: r /\ opens s = true).

Lemma text_split_text : forall t rest, no_lt t -> starts_markup rest -> text_split (t ++ rest) = (t, rest).
Proof.
  induction t as [|c t IH]; intros rest Ht Hr.
  - cbn [app]. destruct Hr as [->|(r & -> & Ho)]; [reflexivity|].
    cbn [text_split]. change (LT =? LT) with true. rewrite Ho. reflexivity.
  - inversion Ht; subst. cbn [app text_split]. rewrite H1. cbn [andb]. rewrite IH; auto.
Qed.

Lemma next_text t rest : t <> [] -> no_lt t -> starts_markup rest -> next [] (t ++ rest) = Tok (RText 0 t) [] rest.
Proof.
  intros Hne Ht Hr. unfold next. destruct (t ++ rest) eqn:E; [destruct t; [congruence | discriminate]|].
  rewrite <- E. rewrite text_split_text; auto. destruct t; [congruence | reflexivity].
Qed.

Lemma next_markup_normal s : (exists r, s = LT :: r /\ opens s = true) -> next [] s = next_markup s.
Proof.
  intros (r & -> & Ho). unfold next. cbn [text_split]. change (LT =? LT) with true. rewrite Ho. reflexivity.
Qed.

(* ---- Part 3: a whole rendered sequence ---------------------------------------------------- *)
Inductive seg :=
| SText (t : bytes)
| STag (n : bytes) (a : list attr) (c : tag_close)
| SEnd (n : bytes)
| SComment (d : bytes).     (* a comment with data d, written with its body escaped *)

Definition seg_bytes (sg : seg) (rest : bytes) : bytes :=
  match sg with
  | SText t => t ++ rest
  | STag n a c => raw_tag n a c rest
  | SEnd n => raw_end n rest
  | SComment d => render1 (TComment d) ++ rest
  end.
Definition render_segs (l : list seg) : bytes := fold_right seg_bytes [] l.

Definition seg_ok (sg : seg) : Prop :=
  match sg with
  | SText t => t <> [] /\ no_lt t
  | STag n a _ => name_ok n /\ Forall rattr_ok a /\ is_raw_name n = false
  | SEnd n => name_ok n
  | SComment _ => True
  end.
Definition is_text_seg (sg : seg) : bool := match sg with SText _ => true | _ => false end.
(* no two adjacent text segments *)
Fixpoint separated (l : list seg) : Prop :=
  match l with
  | sg :: ((sg' :: _) as l') => (is_text_seg sg = true -> is_text_seg sg' = false) /\ separated l'
  | _ => True
  end.

Definition rtok_of (sg : seg) : rtoken :=
  match sg with
  | SText t => RText 0 t
  | STag n a CloseStart => RStart n a
  | STag n a CloseSelf => RSelf n a
  | SEnd n => REnd n
  | SComment d => RComment (escape_comment d)
  end.

Lemma markup_seg_opens sg rest : seg_ok sg -> is_text_seg sg = false ->
  exists r, seg_bytes sg rest = LT :: r /\ opens (seg_bytes sg rest) = true.
Proof.
  intros Hok Ht. destruct sg as [t|n a c|n|d]; [discriminate| | |].
  - destruct Hok as (Hn & _ & _). destruct (name_first_letter n Hn) as (c0 & n' & -> & Hc).
    eexists. split; [reflexivity|]. cbn. rewrite Hc. reflexivity.
  - eexists. split; [reflexivity|]. reflexivity.
  - eexists. split; [reflexivity|]. reflexivity.
Qed.

Lemma render_starts_markup sg l : seg_ok sg -> is_text_seg sg = false -> starts_markup (render_segs (sg :: l)).
Proof.
  intros Hok Ht. right. cbn [render_segs fold_right]. apply markup_seg_opens; auto.
Qed.

Theorem tokens_render : forall l fuel, Forall seg_ok l -> separated l -> (length l < fuel)%nat ->
  tokens fuel [] (render_segs l) = map rtok_of l.
Proof.
  induction l as [|sg l IH]; intros fuel Hok Hsep Hf.
  - destruct fuel; [lia|]. reflexivity.
  - destruct fuel as [|fuel]; [simpl in Hf; lia|].
    inversion Hok as [|? ? Hsg Hl]; subst.
    assert (Hsep' : separated l) by (destruct l; [exact I | apply Hsep]).
    assert (Hf' : (length l < fuel)%nat) by (simpl in Hf; lia).
    cbn [render_segs fold_right map tokens]. fold (render_segs l).
    destruct sg as [t|n a c|n|d]; cbn [seg_bytes rtok_of].
    + (* text *)
      destruct Hsg as [Hne Hnl].
      assert (Hst : starts_markup (render_segs l)).
      { destruct l as [|sg' l']; [left; reflexivity|].
        inversion Hl; subst. apply render_starts_markup; auto. apply (proj1 Hsep). reflexivity. }
      rewrite (next_text t (render_segs l) Hne Hnl Hst). rewrite IH; auto.
    + (* start / self-closing tag *)
      destruct Hsg as (Hn & Ha & Hraw).
      rewrite next_markup_normal by (apply (markup_seg_opens (STag n a c) (render_segs l)); [split; [exact Hn | split; [exact Ha | exact Hraw]] | reflexivity]).
      rewrite (next_markup_tag n a c (render_segs l) Hn Ha).
      unfold rawtag_of. rewrite Hraw. rewrite IH; auto.
    + (* end tag *)
      rewrite next_markup_normal by (apply (markup_seg_opens (SEnd n) (render_segs l)); [exact Hsg | reflexivity]).
      rewrite (next_markup_end n (render_segs l) Hsg). rewrite IH; auto.
    + (* comment *)
      rewrite (next_rendered_comment d (render_segs l)). rewrite IH; auto.
Qed.


Lemma seg_bytes_length sg rest : seg_ok sg -> (length rest < length (seg_bytes sg rest))%nat.
Proof.
  intros Hok. destruct sg as [t|n a c|n|d]; cbn [seg_bytes raw_tag raw_end].
  - destruct Hok as [Hne _]. rewrite app_length. destruct t; [congruence | simpl; lia].
  - simpl length. rewrite !app_length. destruct c; simpl; lia.
  - simpl length. rewrite !app_length. simpl. lia.
  - cbn [render1]. rewrite !app_length. simpl. lia.
Qed.

Lemma render_segs_length l : Forall seg_ok l -> (length l <= length (render_segs l))%nat.
Proof.
  induction 1 as [|sg l Hsg Hl IH]; cbn [render_segs fold_right length]; [lia|].
  fold (render_segs l). pose proof (seg_bytes_length sg (render_segs l) Hsg). lia.
Qed.

Corollary raw_tokens_render l : Forall seg_ok l -> separated l -> raw_tokens (render_segs l) = map rtok_of l.
Proof.
  intros Hok Hsep. unfold raw_tokens. apply tokens_render; auto. pose proof (render_segs_length l Hok). lia.
Qed.

(* ---- Part 4: decoding what was rendered --------------------------------------------------- *)
Lemma conv_nl_no_cr : forall s, Forall (fun c => (c =? CR) = false) s -> conv_nl s = s.
Proof. induction s as [|c s IH]; simpl; intros H; auto. inversion H; subst. rewrite H2. f_equal. auto. Qed.

Lemma escape_no_cr d : Forall (fun c => (c =? CR) = false) (escape d).
Proof.
  apply Forall_forall. intros c Hc. destruct (escape_inert d c Hc) as (_ & _ & _ & _ & H). apply N.eqb_neq. exact H.
Qed.
Lemma escape_no_lt d : no_lt (escape d).
Proof.
  apply Forall_forall. intros c Hc. destruct (escape_inert d c Hc) as (H & _). apply N.eqb_neq. exact H.
Qed.
Lemma escape_app a b : escape (a ++ b) = escape a ++ escape b.
Proof. unfold escape. apply flat_map_app. Qed.

Lemma decode_text d : decode (RText 0 (escape d)) = TText d.
Proof. cbn [decode]. change (0 =? 0) with true. cbv iota. rewrite conv_nl_no_cr by apply escape_no_cr. rewrite unescape_escape. reflexivity. Qed.

Definition esc_attr (a : attr) : attr := (fst a, escape (snd a)).
Lemma dec_esc_attr a : Forall (fun c => is_upper c = false) (fst a) -> dec_attr (esc_attr a) = a.
Proof.
  intros Hk. destruct a as [k v]. unfold dec_attr, esc_attr. cbn [fst snd].
  rewrite (lower_id k Hk). rewrite conv_nl_no_cr by apply escape_no_cr. rewrite unescape_escape_gen. reflexivity.
Qed.

Lemma render_attr_raw a : render_attr a = raw_attr (esc_attr a).
Proof. reflexivity. Qed.
Lemma tag_string_raw n a : tag_string n a = n ++ raw_attrs (map esc_attr a).
Proof. unfold tag_string, raw_attrs. rewrite flat_map_concat_map, flat_map_concat_map, map_map. reflexivity. Qed.
