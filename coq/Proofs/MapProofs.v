(* Association-list facts used by the builder / additivity statements (C07, C13, C17). *)
From Coq Require Import List NArith Bool Lia Permutation.
Import ListNotations.
From BM Require Import Bytes Strings Policy.
Open Scope N_scope.

Lemma lookup_upsert_same {V} k (f : option V -> V) (m : amap V) : lookup k (upsert k f m) = Some (f (lookup k m)).
Proof.
  induction m as [|[k' v] m IH]; simpl.
  - rewrite beqb_refl. reflexivity.
  - destruct (beqb k' k) eqn:E; simpl; rewrite E; auto.
Qed.

Lemma lookup_upsert_other {V} k k2 (f : option V -> V) (m : amap V) : beqb k k2 = false -> lookup k2 (upsert k f m) = lookup k2 m.
Proof.
  intros Hne. induction m as [|[k' v] m IH]; simpl.
  - destruct (beqb k k2) eqn:E; [discriminate | reflexivity].
  - destruct (beqb k' k) eqn:E; simpl.
    + apply beqb_eq in E. subst k'. rewrite Hne. reflexivity.
    + destruct (beqb k' k2); auto.
Qed.

Lemma existsb_perm {A} (f : A -> bool) l l' : Permutation l l' -> existsb f l = existsb f l'.
Proof.
  induction 1; simpl; auto.
  - rewrite IHPermutation. reflexivity.
  - destruct (f x), (f y); reflexivity.
  - congruence.
Qed.

Lemma existsb_app_mono {A} (f : A -> bool) l x : existsb f l = true -> existsb f (l ++ [x]) = true.
Proof. intros H. rewrite existsb_app, H. reflexivity. Qed.

Lemma lookup_In_gen {V} k (m : amap V) v : lookup k m = Some v -> In (k, v) m.
Proof.
  induction m as [|[k' v'] m IH]; simpl; [discriminate|].
  destruct (beqb k' k) eqn:E.
  - intros H; inversion H; subst. apply beqb_eq in E. subst k'. left; reflexivity.
  - intros H. right. exact (IH H).
Qed.
