(* Assorted facts for C06, C07, C09, C13, C17, C20. *)
From Coq Require Import List NArith ZArith Bool Lia Permutation.
Import ListNotations.
From BM Require Import Bytes Utf8 Strings Escape Tokenizer Policy Url Style Attrs Loop Builder LoopInv LoopProps EscapeProofs MapProofs LinkProofs.
Open Scope N_scope.

Section Misc.
  Variables M U R : Type.
  Variable I : interp M U R.
  Variable p : policy M U R.

  (* ---- C06: a text token outside skipped and raw regions is emitted once, escaped ---- *)
  Lemma text_step st d : skip st = false -> recent_is_raw st = false -> step I p st (TText d) = Ok st [IText d].
  Proof. intros Hs Hr. cbn [step]. unfold recent_is_raw in Hr. rewrite Hs, Hr. reflexivity. Qed.

  (* ---- C07 / C17: adding a rule never makes a rule table reject what it accepted ---- *)
  Lemma rules_accept_add_rule rules k (ap : attr_policy M) a :
    rules_accept I rules a = true -> rules_accept I (app_rule k ap rules) a = true.
  Proof.
    unfold rules_accept, app_rule. intros H.
    destruct (beqb k (akey a)) eqn:E.
    - apply beqb_eq in E. subst k. rewrite lookup_upsert_same.
      destruct (lookup (akey a) rules) as [apl|]; [|discriminate]. apply existsb_app_mono. exact H.
    - rewrite lookup_upsert_other by exact E. exact H.
  Qed.

  (* the order of the rules for one attribute does not matter (Go iterates maps in random order
     when it merges pattern entries) *)
  Lemma rules_order_irrelevant (apl apl' : list (attr_policy M)) v :
    Permutation apl apl' -> existsb (rule_accepts I v) apl = existsb (rule_accepts I v) apl'.
  Proof. apply existsb_perm. Qed.

  (* ---- C09: a non-void element dropped for lack of attributes swallows exactly its own end tag ---- *)
  Lemma dropped_pair st n a aps :
    Inv st -> is_script_or_style n = false -> is_void n = false ->
    element_policies I p n = Some aps -> clean_attrs I p n a aps = [] -> allow_no_attrs I p n = false ->
    exists st1, step I p st (TStart n a) = Ok st1 (space_if_adding p) /\
                stack st1 = (n, O) :: stack st /\ skip st1 = skip st /\ skipCount st1 = skipCount st /\
                exists st2, step I p st1 (TEnd n) = Ok st2 (space_if_adding p) /\
                            stack st2 = stack st /\ skipClosing st2 = skipClosing st /\ skip st2 = skip st /\ skipCount st2 = skipCount st.
  Proof.
    intros Hi Hn Hv Hp Hc Hna.
    set (st1 := {| skip := skip st; skipCount := skipCount st; skipClosing := true; stack := (n, O) :: stack st; recent := normalise n |}).
    assert (E1 : step I p st (TStart n a) = Ok st1 (space_if_adding p)).
    { cbn [step]. rewrite Hn. cbn [andb]. rewrite Hp, Hc, Hna. cbn [negb andb]. rewrite Hv. reflexivity. }
    exists st1. split; [exact E1|]. split; [reflexivity|]. split; [reflexivity|]. split; [reflexivity|].
    set (st2 := {| skip := skip st; skipCount := skipCount st; skipClosing := match stack st with [] => false | _ => true end;
                   stack := stack st; recent := [] |}).
    assert (E2 : step I p st1 (TEnd n) = Ok st2 (space_if_adding p)).
    { cbn [step]. subst st1. cbn [recent]. rewrite beqb_refl. cbn [set_recent skipClosing stack skip skipCount recent]. rewrite Hn. cbn [andb].
      rewrite beqb_refl. reflexivity. }
    exists st2. split; [exact E2|]. split; [reflexivity|]. split; [|split; reflexivity].
    subst st2. cbn [skipClosing]. destruct (stack st) eqn:Es.
    - destruct (skipClosing st) eqn:Esc; auto. apply Hi in Esc. congruence.
    - symmetry. apply Hi. rewrite Es. discriminate.
  Qed.
End Misc.

(* ---- C20: escaping is not applied twice; added rel tokens are not repeated ---- *)
Lemma text_rendering_stable d : render_item (IText (unescape false (render_item (IText d)))) = render_item (IText d).
Proof. cbn [render_item]. rewrite unescape_escape. reflexivity. Qed.

Lemma add_word_idem c w v : ws_free w -> w <> [] -> add_word c w (add_word c w v) = add_word c w v.
Proof.
  intros Hw Hne. destruct c.
  - apply add_word_nodup. apply add_word_has; auto.
  - unfold add_word. reflexivity.
Qed.

Arguments text_step {M U R} I p st d.
Arguments rules_accept_add_rule {M U R} I rules k ap a.
Arguments rules_order_irrelevant {M U R} I apl apl' v.
Arguments dropped_pair {M U R} I p st n a aps.
