(* Comments: the tokenizer re-reads a rendered comment.  Token.String writes "<!--" ++
   escapeCommentString(data) ++ "-->"; the escaped body contains no ">" that could end the comment
   early, so readComment returns exactly the escaped body. *)
From Coq Require Import List Arith NArith Bool Lia.
Import ListNotations.
From BM Require Import Bytes Utf8 Strings Escape Tokenizer.
Open Scope N_scope.

(* no ">" directly after the start, a "-" or a "!" *)
Fixpoint csafe (prev : option N) (e : bytes) : bool :=
  match e with
  | [] => true
  | c :: e' =>
    (if c =? GT then match prev with None => false | Some p => negb ((p =? BANG) || (p =? DASH)) end else true)
    && csafe (Some c) e'
  end.

Lemma drop_last_2 (l : bytes) a b : drop_last 2 (l ++ [a; b]) = l.
Proof.
  unfold drop_last. rewrite app_length. cbn [length]. replace (length l + 2 - 2)%nat with (length l) by lia.
  rewrite firstn_app, firstn_all, Nat.sub_diag. cbn. apply app_nil_r.
Qed.

Definition rstate_ok (prev : option N) (dash : nat) (beg : bool) : Prop :=
  ((1 <= dash)%nat -> prev = Some DASH) /\ (beg = true -> prev = None \/ prev = Some DASH).

Lemma read_comment_end acc dash beg rest :
  read_comment ([DASH; DASH; GT] ++ rest) acc dash beg = (rev acc, rest).
Proof.
  cbn [app read_comment]. change (DASH =? DASH) with true. cbv iota.
  change (GT =? DASH) with false. change (GT =? GT) with true. cbv iota.
  assert (E : Nat.leb 2 (S (S dash)) = true) by reflexivity. rewrite E. cbn [orb andb].
  f_equal. cbn [rev]. rewrite <- app_assoc. cbn [app]. apply drop_last_2.
Qed.

Lemma read_comment_safe rest : forall n e, (length e <= n)%nat -> forall prev acc dash beg,
  csafe prev e = true -> rstate_ok prev dash beg ->
  read_comment (e ++ [DASH; DASH; GT] ++ rest) acc dash beg = (rev acc ++ e, rest).
Proof.
  set (tl := [DASH; DASH; GT] ++ rest).
  induction n as [|n IH]; intros e Hlen prev acc dash beg Hs Hr.
  - destruct e; [|cbn in Hlen; lia]. rewrite app_nil_r. apply read_comment_end.
  - destruct e as [|c e']; [rewrite app_nil_r; apply read_comment_end|].
    cbn [csafe] in Hs. apply andb_true_iff in Hs as [Hc Hs']. cbn [length] in Hlen.
    assert (Hres : forall acc', rev acc' = rev acc ++ [c] -> forall x, (rev acc' ++ x) = rev acc ++ c :: x).
    { intros acc' E x. rewrite E, <- app_assoc. reflexivity. }
    cbn [app read_comment].
    destruct (c =? DASH) eqn:Ed.
    + apply N.eqb_eq in Ed. subst c.
      rewrite (IH e' ltac:(lia) (Some DASH) (DASH :: acc) (S dash) beg Hs').
      * cbn [rev]. rewrite <- app_assoc. reflexivity.
      * split; [reflexivity | intros _; right; reflexivity].
    + destruct (c =? GT) eqn:Eg.
      * (* an unescaped ">": the byte before it is neither "-" nor "!" *)
        apply N.eqb_eq in Eg. subst c. destruct prev as [p|]; [|discriminate Hc].
        apply negb_true_iff, orb_false_iff in Hc as [Hb Hd]. destruct Hr as [Hr1 Hr2].
        assert (dash = 0%nat) as ->.
        { destruct dash; [reflexivity|]. specialize (Hr1 ltac:(lia)). inversion Hr1; subst. rewrite N.eqb_refl in Hd. discriminate. }
        assert (beg = false) as ->.
        { destruct beg; [|reflexivity]. destruct (Hr2 eq_refl) as [E|E]; [discriminate | inversion E; subst; rewrite N.eqb_refl in Hd; discriminate]. }
        cbn [Nat.leb orb andb]. change (GT =? BANG) with false. cbn [andb].
        rewrite (IH e' ltac:(lia) (Some GT) (GT :: acc) 0%nat false Hs'); [cbn [rev]; rewrite <- app_assoc; reflexivity|].
        split; [lia | discriminate].
      * cbn [andb]. destruct ((c =? BANG) && Nat.leb 2 dash) eqn:Eb.
        -- apply andb_true_iff in Eb as [Eb Edash]. apply N.eqb_eq in Eb. subst c.
           destruct e' as [|b e''].
           ++ (* "!" is the last byte of the body: the terminator follows *)
              subst tl. cbn [app]. change (DASH =? GT) with false. change (DASH =? DASH) with true. cbv iota.
              cbn [read_comment]. change (DASH =? DASH) with true. cbv iota. change (GT =? DASH) with false. change (GT =? GT) with true. cbv iota.
              cbn [Nat.leb orb andb]. f_equal. cbn [rev]. rewrite <- !app_assoc. cbn [app].
              change (rev acc ++ [BANG; DASH; DASH]) with (rev acc ++ [BANG] ++ [DASH; DASH]). rewrite app_assoc. rewrite drop_last_2. reflexivity.
           ++ cbn [csafe] in Hs'. apply andb_true_iff in Hs' as [Hb Hs''].
              assert (Ebg : (b =? GT) = false).
              { destruct (b =? GT) eqn:E; [|reflexivity]. cbn in Hb. discriminate Hb. }
              cbn [app]. rewrite Ebg. cbn [length] in Hlen. destruct (b =? DASH) eqn:Ebd.
              ** apply N.eqb_eq in Ebd. subst b.
                 rewrite (IH e'' ltac:(lia) (Some DASH) (DASH :: BANG :: acc) 1%nat false Hs'').
                 --- cbn [rev]. rewrite <- !app_assoc. reflexivity.
                 --- split; [reflexivity | discriminate].
              ** rewrite (IH e'' ltac:(lia) (Some b) (b :: BANG :: acc) 0%nat false Hs'').
                 --- cbn [rev]. rewrite <- !app_assoc. reflexivity.
                 --- split; [lia | discriminate].
        -- rewrite (IH e' ltac:(lia) (Some c) (c :: acc) 0%nat false Hs'); [cbn [rev]; rewrite <- app_assoc; reflexivity|].
           split; [lia | discriminate].
Qed.

(* the escaped body is safe *)
Definition prev_compat (prev pb : option N) : Prop :=
  (pb = None -> prev = None) /\ (forall p, pb = Some p -> p = BANG \/ p = DASH -> prev = Some p).

Lemma csafe_plain w z : forall pb e, Forall (fun c => (c =? GT) = false) (w ++ [z]) ->
  csafe (Some z) e = true -> csafe pb ((w ++ [z]) ++ e) = true.
Proof.
  induction w as [|c w IH]; intros pb e Hw He; cbn [app csafe].
  - inversion Hw as [|? ? Hc _]; subst. rewrite Hc. exact He.
  - inversion Hw as [|? ? Hc Hw']; subst. rewrite Hc. cbn [andb]. apply IH; assumption.
Qed.

Lemma escape_comment_safe : forall d prev pb, prev_compat prev pb -> csafe pb (escape_comment_from prev d) = true.
Proof.
  induction d as [|c d IH]; intros prev pb Hc; cbn [escape_comment_from]; [reflexivity|].
  destruct (c =? 38) eqn:Ea.
  - apply (csafe_plain [38;97;109;112] 59); [repeat constructor|]. apply IH.
    split; [discriminate | intros p Hp [E|E]; inversion Hp; subst; discriminate].
  - destruct ((c =? 62) && match prev with None => true | Some p => (p =? 33) || (p =? 45) end) eqn:Eg.
    + apply (csafe_plain [38;103;116] 59); [repeat constructor|]. apply IH.
      split; [discriminate | intros p Hp [E|E]; inversion Hp; subst; discriminate].
    + cbn [app csafe]. assert (Hgt : (if c =? GT then match pb with None => false | Some p => negb ((p =? BANG) || (p =? DASH)) end else true) = true).
      { destruct (c =? GT) eqn:E; [|reflexivity]. change GT with 62 in E. rewrite E in Eg. cbn [andb] in Eg.
        destruct Hc as [H1 H2]. destruct pb as [p|].
        - destruct ((p =? BANG) || (p =? DASH)) eqn:Ep; [|reflexivity]. exfalso.
          assert (Hp : p = BANG \/ p = DASH) by (apply orb_true_iff in Ep as [E1|E1]; apply N.eqb_eq in E1; auto).
          rewrite (H2 p eq_refl Hp) in Eg. change 33 with BANG in Eg. change 45 with DASH in Eg. rewrite Ep in Eg. discriminate.
        - rewrite (H1 eq_refl) in Eg. discriminate. }
      rewrite Hgt. cbn [andb]. apply IH. split; [discriminate | intros p Hp _; exact Hp].
Qed.

Theorem read_comment_escaped d rest :
  read_comment (escape_comment d ++ [DASH; DASH; GT] ++ rest) [] 0 true = (escape_comment d, rest).
Proof.
  unfold escape_comment. rewrite (read_comment_safe rest (length (escape_comment_from None d)) _ (le_n _) None [] 0%nat true).
  - reflexivity.
  - apply escape_comment_safe. split; [reflexivity | discriminate].
  - split; [lia | intros _; left; reflexivity].
Qed.

(* the tokenizer step on a rendered comment: one comment token whose raw data is the escaped body,
   and the input continues right after "-->" *)
Theorem next_rendered_comment d rest :
  next [] (render1 (TComment d) ++ rest) = Tok (RComment (escape_comment d)) [] rest.
Proof.
  assert (E : render1 (TComment d) ++ rest = LT :: BANG :: DASH :: DASH :: (escape_comment d ++ [DASH; DASH; GT] ++ rest)).
  { cbn [render1]. rewrite <- !app_assoc. reflexivity. }
  rewrite E. set (body := escape_comment d ++ [DASH; DASH; GT] ++ rest).
  unfold next. cbn [text_split]. change (LT =? LT) with true. cbn [opens]. change (is_letter BANG) with false. change (BANG =? SLASH) with false.
  change (BANG =? BANG) with true. cbn [orb andb]. cbv iota.
  cbn [next_markup]. change (is_letter BANG) with false. change (BANG =? SLASH) with false. change (BANG =? BANG) with true. cbv iota.
  cbn [read_markup]. change (DASH =? DASH) with true. cbn [andb]. cbv iota.
  subst body. rewrite (read_comment_escaped d rest). reflexivity.
Qed.
