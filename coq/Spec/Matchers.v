(* What the eleven exported attribute matchers of helpers.go are documented to accept.
   Written from the doc comments in helpers.go and the MDN/W3C pages they cite;
   nothing here is derived from the regexp literals themselves. *)
From Coq Require Import List NArith Bool String.
Import ListNotations.
From BM Require Import Bytes Regex.
Open Scope string_scope.
Open Scope list_scope.
Open Scope N_scope.

(* ASCII-case-insensitive words.  Go's (?i) is Unicode simple case folding, under which
   's' also folds to U+017F (long s) and 'k' to U+212A (Kelvin sign); both are letters,
   neither is HTML-significant, and the documented form is read modulo that folding. *)
Definition fold_cls (c : N) : cset :=
  let lo := if (65 <=? c) && (c <=? 90) then c + 32 else c in
  if (97 <=? lo) && (lo <=? 122) then
    [(lo - 32, lo - 32); (lo, lo)] ++ (if lo =? 115 then [(383, 383)] else if lo =? 107 then [(8490, 8490)] else [])
  else [(c, c)].
Fixpoint ci_word (w : bytes) : re :=
  match w with [] => Eps | c :: w' => Cat (Chr false (fold_cls c)) (ci_word w') end.
Definition ci_words (ws : list string) : re := alts (map (fun w => ci_word (bytes_of_string w)) ws).

Definition letters : cset := [(65, 90); (97, 122); (383, 383); (8490, 8490)].
Definition digits : cset := [(48, 57)].
Definition digit := Chr false digits.
Definition html_ws : cset := [(9, 10); (12, 13); (32, 32)].           (* \s : TAB LF FF CR SP *)
Definition non_ascii : cset := [(128, 1114111)].
Definition c1 (s : string) : cset := map (fun c => (c, c)) (bytes_of_string s).
Fixpoint rep (n : nat) (r : re) := match n with O => Eps | S k => Cat r (rep k r) end.
Fixpoint upto (n : nat) (r : re) := match n with O => Eps | S k => opt (Cat r (upto k r)) end.

Record matcher_spec := {
  ms_name : string;
  ms_alphabet : cset;                  (* documented alphabet *)
  ms_exact : option re;                (* documented language, when the documentation pins it down *)
  ms_examples : list string            (* documented examples, all must be accepted *)
}.

Definition CellAlign_spec := {| ms_name := "CellAlign"; ms_alphabet := letters;
  ms_exact := Some (ci_words ["center"; "justify"; "left"; "right"; "char"]);
  ms_examples := ["center"; "justify"; "left"; "right"; "char"; "CENTER"; "Left"] |}.
Definition CellVerticalAlign_spec := {| ms_name := "CellVerticalAlign"; ms_alphabet := letters;
  ms_exact := Some (ci_words ["baseline"; "bottom"; "middle"; "top"]);
  ms_examples := ["baseline"; "bottom"; "middle"; "top"; "TOP"] |}.
Definition Direction_spec := {| ms_name := "Direction"; ms_alphabet := letters;
  ms_exact := Some (ci_words ["rtl"; "ltr"]);
  ms_examples := ["rtl"; "ltr"; "RTL"; "LTR"] |}.
Definition ImageAlign_spec := {| ms_name := "ImageAlign"; ms_alphabet := letters;
  ms_exact := Some (ci_words ["left"; "right"; "top"; "texttop"; "middle"; "absmiddle"; "baseline"; "bottom"; "absbottom"]);
  ms_examples := ["left"; "right"; "top"; "texttop"; "middle"; "absmiddle"; "baseline"; "bottom"; "absbottom"] |}.
Definition Integer_spec := {| ms_name := "Integer"; ms_alphabet := digits;
  ms_exact := Some (plus digit);
  ms_examples := ["0"; "1"; "42"; "007"; "18446744073709551616"] |}.
(* W3C NOTE-datetime profile as listed in the doc comment; separators T or space, optional Z,
   optional numeric offset, 1-6 fraction digits *)
Definition ISO8601_spec := {| ms_name := "ISO8601";
  ms_alphabet := digits ++ c1 "-:T .Z+";
  ms_exact := None;
  ms_examples := ["1997"; "1997-07"; "1997-07-16"; "1997-07-16T19:20+01:00"; "1997-07-16T19:20:30+01:00";
                  "1997-07-16T19:20:30.45+01:00"; "1997-07-16 19:20"; "1997-07-16T19:20:30Z"] |}.
Definition ListType_spec := {| ms_name := "ListType"; ms_alphabet := letters ++ c1 "1";
  ms_exact := Some (ci_words ["circle"; "disc"; "square"; "a"; "i"; "1"]);
  ms_examples := ["circle"; "disc"; "square"; "a"; "A"; "i"; "I"; "1"] |}.
(* space delimited lists of tokens made of letters, numbers, underscore and hyphen *)
Definition SpaceSeparatedTokens_spec := {| ms_name := "SpaceSeparatedTokens";
  ms_alphabet := html_ws ++ [(48, 57); (65, 90); (97, 122)] ++ c1 "_-" ++ non_ascii;
  ms_exact := None;
  ms_examples := ["nofollow"; "nofollow noopener"; "a-b c_d e1"; " x "] |}.
Definition Number_spec := {| ms_name := "Number"; ms_alphabet := digits ++ c1 "-+.eE";
  ms_exact := Some (Cat (opt (Chr false (c1 "-+")))
                   (Cat (Star digit) (Cat (opt (ch 46)) (Cat (plus digit)
                   (opt (Cat (Chr false (c1 "eE")) (Cat (opt (Chr false (c1 "-+"))) (plus digit))))))));
  ms_examples := ["0"; "1.5"; "-1"; "+.5"; "1e10"; "6.02E-23"] |}.
Definition NumberOrPercent_spec := {| ms_name := "NumberOrPercent"; ms_alphabet := digits ++ c1 "%";
  ms_exact := Some (Cat (plus digit) (opt (ch 37)));
  ms_examples := ["0"; "100"; "50%"] |}.
(* a paragraph of text: letters, numbers, white space and  - _ ' , [ ] ! . / \ ( )  *)
Definition Paragraph_spec := {| ms_name := "Paragraph";
  ms_alphabet := html_ws ++ [(48, 57); (65, 90); (97, 122)] ++ c1 "-_',[]!./\()" ++ non_ascii;
  ms_exact := None;
  ms_examples := [""; "Hello, world!"; "it's [ok] (really) a/b\c"; "x_y-z."] |}.

Definition matcher_specs : list matcher_spec :=
  [CellAlign_spec; CellVerticalAlign_spec; Direction_spec; ImageAlign_spec; Integer_spec; ISO8601_spec;
   ListType_spec; SpaceSeparatedTokens_spec; Number_spec; NumberOrPercent_spec; Paragraph_spec].

(* HTML-significant and control characters; no documented alphabet contains one, except the
   white-space controls TAB LF FF CR for the two "text" matchers *)
Definition html_significant : list N := [60; 62; 34; 61; 96; 38].
Definition control : cset := [(0, 31); (127, 127)].
Definition is_text_matcher (m : matcher_spec) : bool :=
  String.eqb (ms_name m) "SpaceSeparatedTokens" || String.eqb (ms_name m) "Paragraph".
Definition alphabet_sane (m : matcher_spec) : bool :=
  forallb (fun c => negb (cs_mem c (ms_alphabet m))) html_significant &&
  forallb (fun c => negb (cs_mem c (ms_alphabet m)) || (is_text_matcher m && cs_mem c html_ws))
          (map N.of_nat (seq 0 32) ++ [127]).
