(* C18: what makes a CSS value hostile, written from the property text (independent of the code):
   an angle bracket, a backslash escape, an at-sign, expression( , a javascript: or data: reference,
   or a url( that is not a plain http:// or https:// reference.  Words are ASCII-case-insensitive. *)
From Coq Require Import List NArith Bool String.
Import ListNotations.
From BM Require Import Bytes Regex Matchers.
Open Scope N_scope.

Definition ci (w : string) : re := ci_word (bytes_of_string w).
Definition quote : re := Chr false [(34, 34); (39, 39)].
(* characters after which a scheme name can start a reference (anything that cannot be part of a URL body) *)
Definition url_body : cset := [(46, 58); (92, 92); (95, 95); (97, 122); (65, 90)].   (* . / 0-9 : \ _ a-z A-Z *)
Definition at_ref_start (r : re) : re := Alt (Cat Bot r) (Cat top (Cat (Chr true url_body) r)).

Definition hostile_parts : list re :=
       [ contains_cls false [(60, 60); (62, 62); (92, 92); (64, 64)];                 (* < > \ @ *)
         contains (ci "expression(");
         Cat (at_ref_start (Alt (ci "javascript") (ci "data"))) (Cat (ch 58) top);    (* javascript: / data: reference *)
         (* url( not followed by an optional quote and http:// or https:// *)
         Cat top (Cat (ci "url(") (Not (Cat (opt quote) (Cat (ci "http") (Cat (opt (ci "s")) (Cat (lit [58; 47; 47]) top)))))) ].
Definition hostile : re := alts hostile_parts.

(* the characters of which one is needed for any hostile value *)
Definition danger : list N := [60; 62; 92; 64; 40; 58].
Definition word_inert (w : bytes) : bool := forallb (fun c => negb (existsb (N.eqb c) danger)) w.
