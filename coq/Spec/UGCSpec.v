(* C04: the documented vocabulary of UGCPolicy, written from the comments of policies.go /
   helpers.go and the README: element -> the attribute names allowed on it (besides the global
   attributes dir, lang, id, title). Independent of the code's tables. *)
From Coq Require Import List NArith Bool.
Import ListNotations.
From BM Require Import Bytes.
Open Scope N_scope.

Definition ugc_global_attrs : list bytes := [B"dir"; B"lang"; B"id"; B"title"].

Definition bare (els : list bytes) : list (bytes * list bytes) := map (fun e => (e, [])) els.

Definition ugc_vocabulary : list (bytes * list bytes) :=
  bare [B"article"; B"aside"; B"figure"; B"section"; B"summary"; B"h1"; B"h2"; B"h3"; B"h4"; B"h5"; B"h6"; B"hgroup";
        B"br"; B"div"; B"hr"; B"p"; B"span"; B"wbr";
        B"abbr"; B"acronym"; B"cite"; B"code"; B"dfn"; B"em"; B"figcaption"; B"mark"; B"s"; B"samp"; B"strong"; B"sub"; B"sup"; B"var";
        B"b"; B"i"; B"pre"; B"small"; B"strike"; B"tt"; B"u"; B"rp"; B"rt"; B"ruby"; B"dl"; B"dt"; B"dd"; B"caption"] ++
  [ (B"details", [B"open"]); (B"blockquote", [B"cite"]); (B"a", [B"href"]); (B"map", [B"name"]);
    (B"area", [B"alt"; B"coords"; B"href"; B"rel"; B"shape"]);
    (B"img", [B"usemap"; B"align"; B"alt"; B"height"; B"width"; B"src"]);
    (B"q", [B"cite"]); (B"time", [B"datetime"]); (B"bdi", [B"dir"]); (B"bdo", [B"dir"]);
    (B"del", [B"cite"; B"datetime"]); (B"ins", [B"cite"; B"datetime"]);
    (B"ol", [B"type"]); (B"ul", [B"type"]); (B"li", [B"type"; B"value"]);
    (B"table", [B"height"; B"width"; B"summary"]);
    (B"col", [B"align"; B"height"; B"width"; B"span"; B"valign"]); (B"colgroup", [B"align"; B"height"; B"width"; B"span"; B"valign"]);
    (B"thead", [B"align"; B"valign"]); (B"tr", [B"align"; B"valign"]);
    (B"td", [B"abbr"; B"align"; B"colspan"; B"rowspan"; B"headers"; B"height"; B"width"; B"scope"; B"valign"; B"nowrap"]);
    (B"th", [B"abbr"; B"align"; B"colspan"; B"rowspan"; B"headers"; B"height"; B"width"; B"scope"; B"valign"; B"nowrap"]);
    (B"tbody", [B"align"; B"valign"]); (B"tfoot", [B"align"; B"valign"]);
    (B"meter", [B"value"; B"min"; B"max"; B"low"; B"high"; B"optimum"]); (B"progress", [B"value"; B"max"]) ].

(* what the property says must never be in it *)
Definition ugc_forbidden_elements : list bytes :=
  [B"script"; B"style"; B"iframe"; B"object"; B"embed"; B"input"; B"select"; B"textarea"; B"button"; B"form";
   B"option"; B"optgroup"; B"fieldset"; B"label"; B"output"; B"keygen"; B"datalist"; B"base"; B"meta"; B"link";
   B"frame"; B"frameset"; B"applet"; B"svg"; B"math"; B"video"; B"audio"; B"source"; B"track"; B"canvas"; B"param"].
Definition event_or_style_attr (k : bytes) : bool :=
  beqb k (B"style") || match k with 111 :: 110 :: _ => true | _ => false end.     (* style, on* *)
Definition ugc_schemes : list bytes := [B"mailto"; B"http"; B"https"].

(* documented valid values (my reading of the value spaces named in helpers.go / policies.go): an
   attribute of the vocabulary carrying one of these must pass the attribute filter.  URL attributes
   (href, cite, src) are judged by the URL gate, not by a pattern, and are not listed here. *)
Definition ugc_value_samples : list (bytes * list bytes) :=
  [ (B"align", [B"left"; B"center"; B"right"; B"justify"; B"char"]); (B"valign", [B"baseline"; B"bottom"; B"middle"; B"top"]);
    (B"height", [B"10"; B"10%"]); (B"width", [B"10"; B"25%"]); (B"span", [B"2"]); (B"colspan", [B"2"]); (B"rowspan", [B"3"]);
    (B"abbr", [B"some text"]); (B"headers", [B"h1 h2"]); (B"scope", [B"row"; B"colgroup"]); (B"nowrap", [B"nowrap"]); (B"summary", [B"a summary"]);
    (B"datetime", [B"1997-07-16"; B"1997-07-16T19:20:30+01:00"]); (B"open", [B"open"]); (B"name", [B"m1"]); (B"alt", [B"some text"]);
    (B"coords", [B"1,2,3"]); (B"shape", [B"rect"; B"circle"]); (B"usemap", [B"#m1"]);
    (B"min", [B"0"]); (B"max", [B"1"]); (B"low", [B"0.2"]); (B"high", [B"0.8"]); (B"optimum", [B"0.5"]);
    (B"dir", [B"rtl"; B"ltr"]); (B"lang", [B"en"]); (B"id", [B"a1"]); (B"title", [B"a title"]) ].
Definition ugc_value_overrides : list (bytes * bytes * list bytes) :=
  [ (B"img", B"align", [B"left"; B"top"; B"middle"; B"bottom"]); (B"ol", B"type", [B"a"; B"A"; B"i"; B"I"; B"1"]);
    (B"ul", B"type", [B"disc"; B"circle"; B"square"]); (B"li", B"type", [B"a"; B"disc"; B"1"]);
    (B"meter", B"value", [B"0.5"]); (B"progress", B"value", [B"1"]); (B"progress", B"max", [B"2"]); (B"li", B"value", [B"3"]) ].
Definition ugc_url_attrs : list bytes := [B"href"; B"cite"; B"src"; B"rel"].
