(* C11/C12/C03: what the property texts say about element lists (independent of the code). *)
From Coq Require Import List NArith Bool.
Import ListNotations.
From BM Require Import Bytes.
Open Scope N_scope.

Definition crossorigin_documented : list bytes := [B"audio"; B"img"; B"link"; B"script"; B"video"].
Definition sandbox_documented : list bytes :=
  [B"allow-downloads"; B"allow-downloads-without-user-activation"; B"allow-forms"; B"allow-modals";
   B"allow-orientation-lock"; B"allow-pointer-lock"; B"allow-popups"; B"allow-popups-to-escape-sandbox";
   B"allow-presentation"; B"allow-same-origin"; B"allow-scripts"; B"allow-storage-access-by-user-activation";
   B"allow-top-navigation"; B"allow-top-navigation-by-user-activation"].
Definition link_rel_documented : list bytes := [B"a"; B"area"; B"link"].
(* the fifteen URL positions *)
Definition href_documented : list bytes := [B"a"; B"area"; B"base"; B"link"].
Definition cite_documented : list bytes := [B"blockquote"; B"del"; B"ins"; B"q"].
Definition src_documented : list bytes := [B"audio"; B"embed"; B"iframe"; B"img"; B"input"; B"script"; B"source"; B"track"; B"video"].

Definition subset (a b : list bytes) : bool := forallb (fun x => mem x b) a.
Definition same_set (a b : list bytes) : bool := subset a b && subset b a.
