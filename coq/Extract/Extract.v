(* Extraction of the executable model to OCaml for the correspondence driver.
   Only ExtrOcamlBasic is used: bool, option, list, prod, unit, sumbool map to OCaml's;
   N, Z, positive, nat stay the extracted inductive types.  No Extract Constant. *)
Require Extraction.
Require Import ExtrOcamlBasic.
From BM Require Import Bytes Utf8 Regex C19Inst.
Extraction Language OCaml.
Extraction "model.ml" Bytes.beqb Utf8.runes Utf8.encode Regex.search Regex.matches Regex.witness C19Inst.c19_report.
