(* Extraction of the executable model to OCaml for the correspondence driver.
   Only ExtrOcamlBasic is used: bool, option, list, prod, unit, sumbool map to OCaml's;
   N, Z, positive, nat stay the extracted inductive types.  No Extract Constant. *)
Require Extraction.
Require Import ExtrOcamlBasic.
From BM Require Import Bytes Utf8 Strings Regex Escape Tokenizer Policy Url Style RecCheck KwHandler GenCss Attrs Loop Builder Entry Helpers C19Inst C04Inst C18RxClean.
Extraction Language OCaml.
Extraction "model.ml"
  Bytes.beqb Utf8.runes Utf8.encode Regex.search Regex.matches Regex.witness C19Inst.c19_report
  Strings.to_lower Strings.trim_space Strings.fields Strings.equal_fold Strings.quote_to_ascii_body
  Escape.escape Escape.unescape Escape.escape_comment
  Tokenizer.tokenize Tokenizer.render1
  Url.valid_url Style.remove_unicode Style.sanitize_styles RecCheck.rc_sets C18RxClean.css_handlers C18RxClean.css_defs_kept
  Attrs.is_data_attribute Attrs.linkable Attrs.sanitize_attrs Attrs.allow_no_attrs
  Loop.normalise Loop.run Loop.sanitize_bytes Loop.element_policies
  Builder.new_policy Builder.apply Builder.build
  Entry.sanitize_rw Entry.Sanitize Entry.SanitizeBytes Entry.SanitizeReader
  Helpers.data_uri_image_policy C04Inst.ugc C04Inst.strict.
